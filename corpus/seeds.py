"""F-seed: hand-written procedures built through the real @proc/@instr/@config
front end.  Every procedure is small (so that bounded unrolling stays cheap) and
is chosen for a feature: see the tag list next to each.

SEEDS: list of (name, Procedure, tags)
SUBPROCS: procedures usable as callees for replace / insert_noop_call / call_eqv
CONFIGS: config objects
"""
from __future__ import annotations

from exo import proc, instr, config, DRAM
from exo.libs.memories import DRAM_STACK, DRAM_STATIC
from exo.libs.externs import sin, relu, select, fmaxf, sigmoid, sqrt, expf

SEEDS = []
SUBPROCS = []


def seed(*tags):
    def deco(p):
        SEEDS.append((p.name(), p, set(tags)))
        return p

    return deco


def sub(p):
    SUBPROCS.append(p)
    return p


# --------------------------------------------------------------------------
# configs


@config
class CfgA:
    a: index
    b: index
    s: f32
    flag: bool


@config
class CfgB:
    n: size
    scale: f32


CONFIGS = [CfgA, CfgB]

# --------------------------------------------------------------------------
# sub-procedures (also seeds)


@sub
@seed("sub", "window", "loop1")
@proc
def sp_copy(n: size, dst: [f32][n], src: [f32][n]):
    for i in seq(0, n):
        dst[i] = src[i]


@sub
@seed("sub", "window", "loop1", "reduce")
@proc
def sp_axpy(n: size, a: f32, x: [f32][n], y: [f32][n]):
    for i in seq(0, n):
        y[i] += a * x[i]


@sub
@seed("sub", "window", "assert", "stride")
@proc
def sp_zero4(w: [f32][4]):
    assert stride(w, 0) == 1
    for i in seq(0, 4):
        w[i] = 0.0


@sub
@seed("sub", "window", "assert", "size")
@proc
def sp_fill(n: size, v: f32, w: [f32][n]):
    assert n > 1
    for i in seq(0, n):
        w[i] = v


@sub
@seed("sub", "window", "2d")
@proc
def sp_add2d(n: size, m: size, dst: [f32][n, m], a: [f32][n, m]):
    for i in seq(0, n):
        for j in seq(0, m):
            dst[i, j] += a[i, j]


@sub
@seed("sub", "scalar_ref")
@proc
def sp_acc(n: size, x: [f32][n], out: f32):
    for i in seq(0, n):
        out += x[i]


@sub
@seed("sub", "index_arg", "guard")
@proc
def sp_set_at(n: size, k: index, x: [f32][n], v: f32):
    assert k >= 0
    assert k < n
    x[k] = v


@sub
@seed("sub", "config")
@proc
def sp_cfg_write(v: index):
    CfgA.a = v


@sub
@seed("sub", "config")
@proc
def sp_cfg_scale(n: size, x: [f32][n]):
    for i in seq(0, n):
        x[i] = x[i] * CfgA.s


@instr("for(int i_=0;i_<4;i_++) {dst}.data[i_*{dst}.strides[0]] = {src}.data[i_*{src}.strides[0]];")
def ins_copy4(dst: [f32][4], src: [f32][4]):
    for i in seq(0, 4):
        dst[i] = src[i]


SUBPROCS.append(ins_copy4)
SEEDS.append((ins_copy4.name(), ins_copy4, {"instr", "window"}))


# --------------------------------------------------------------------------
# loop nests


@seed("loop1", "assign")
@proc
def s_scale(n: size, x: f32[n], y: f32[n]):
    for i in seq(0, n):
        y[i] = 2.0 * x[i] + 1.0


@seed("loop2", "reduce", "alloc")
@proc
def s_gemv(n: size, m: size, A: f32[n, m], x: f32[m], y: f32[n]):
    for i in seq(0, n):
        acc: f32
        acc = 0.0
        for j in seq(0, m):
            acc += A[i, j] * x[j]
        y[i] = acc


@seed("loop2", "reduce", "alloc")
@proc
def s_gemv_acc_outer(n: size, m: size, A: f32[n, m], x: f32[m], y: f32[n]):
    # accumulator shared by all iterations of i and re-initialised in each: loop-carried through `acc`
    acc: f32
    for i in seq(0, n):
        acc = 0.0
        for j in seq(0, m):
            acc += A[i, j] * x[j]
        y[i] = acc


@seed("loop2", "reduce", "par")
@proc
def s_two_i_loops(x: f32[8], y: f32[8], z: f32[16]):
    # two sibling loops whose iterators print the same; textually equal sub-expressions y[i]
    for i in seq(0, 8):
        z[i] = x[i] * y[i]
    for i in seq(0, 8):
        z[8 + i] += x[i] * y[i]


@seed("loop3", "reduce")
@proc
def s_gemm(n: size, m: size, k: size, A: f32[n, k], B: f32[k, m], C: f32[n, m]):
    for i in seq(0, n):
        for j in seq(0, m):
            for kk in seq(0, k):
                C[i, j] += A[i, kk] * B[kk, j]


@seed("loop2", "triangular")
@proc
def s_tri(n: size, A: f32[n, n], x: f32[n]):
    for i in seq(0, n):
        for j in seq(0, i + 1):
            x[i] += A[i, j]


@seed("loop1", "lo_nonzero")
@proc
def s_lo1(n: size, x: f32[n], y: f32[n]):
    assert n >= 2
    for i in seq(1, n):
        y[i] = x[i - 1] + x[i]


@seed("loop1", "lo_sym", "index_arg")
@proc
def s_losym(n: size, lo: index, x: f32[n]):
    assert lo >= 0
    assert lo <= n
    for i in seq(lo, n):
        x[i] = 1.0


@seed("loop1", "zero_trip")
@proc
def s_zero_trip(n: size, x: f32[n]):
    for i in seq(0, n - 1):
        x[i] = x[i + 1]


@seed("two_loops", "fuse")
@proc
def s_two_loops(n: size, x: f32[n], y: f32[n]):
    for i in seq(0, n):
        x[i] = 1.0
    for j in seq(0, n):
        y[j] = x[j] + 2.0


@seed("two_loops", "fuse", "lo_nonzero")
@proc
def s_two_loops_lo(n: size, x: f32[n], y: f32[n]):
    assert n > 1
    for i in seq(1, n):
        x[i] = 1.0
    for j in seq(0, n):
        y[j] = 2.0


@seed("two_loops", "join")
@proc
def s_join(n: size, x: f32[2 * n]):
    for i in seq(0, n):
        x[i] = 3.0
    for i in seq(n, 2 * n):
        x[i] = 3.0


@seed("two_loops", "join", "uneven")
@proc
def s_join_uneven(n: size, x: f32[2 * n], y: f32[2 * n]):
    for i in seq(0, n):
        x[i] = 3.0
    for i in seq(n, 2 * n):
        x[i] = 3.0
        y[i] = 1.0


@seed("guard", "index_arg", "bool_arg")
@proc
def s_guard(n: size, k: index, b: bool, x: f32[n]):
    for i in seq(0, n):
        if i < k and b:
            x[i] = 1.0
        else:
            x[i] = 2.0


@seed("guard", "or")
@proc
def s_guard_or(n: size, k: index, x: f32[n]):
    for i in seq(0, n):
        if i == 0 or i > k:
            x[i] += 1.0


@seed("if_loop", "lift_scope")
@proc
def s_if_in_loop(n: size, b: bool, x: f32[n], y: f32[n]):
    for i in seq(0, n):
        if b:
            x[i] = y[i]


@seed("nested_if")
@proc
def s_nested_if(n: size, a: index, x: f32[n]):
    for i in seq(0, n):
        if a > 0:
            if i < a:
                x[i] = 1.0
            else:
                x[i] = -1.0


@seed("alloc_in_loop", "stage")
@proc
def s_alloc_loop(n: size, x: f32[n], y: f32[n]):
    for i in seq(0, n):
        t: f32[2]
        t[0] = x[i]
        t[1] = t[0] * t[0]
        y[i] = t[1] + t[0]


@seed("alloc2d", "lift_alloc")
@proc
def s_alloc2d(n: size, m: size, x: f32[n, m], y: f32[n, m]):
    for i in seq(0, n):
        for j in seq(0, m):
            t: f32
            t = x[i, j]
            y[i, j] = t * 3.0


@seed("alloc_sym", "buffer")
@proc
def s_alloc_sym(n: size, x: f32[n], y: f32[n]):
    t: f32[n]
    for i in seq(0, n):
        t[i] = x[i] + 1.0
    for i in seq(0, n):
        y[i] = t[i]


@seed("alloc_const", "buffer", "fold")
@proc
def s_blur(n: size, x: f32[n + 2], y: f32[n]):
    t: f32[n + 2]
    for i in seq(0, n + 2):
        t[i] = x[i] * 0.5
    for i in seq(0, n):
        y[i] = t[i] + t[i + 1] + t[i + 2]


@seed("window_stmt")
@proc
def s_winstmt(n: size, x: f32[n, 4], y: f32[4]):
    assert n > 1
    w = x[1, 0:4]
    for i in seq(0, 4):
        y[i] = w[i]


@seed("window_stmt", "window_of_window")
@proc
def s_winwin(x: f32[6, 6], y: f32[2]):
    w = x[1:5, 2:6]
    v = w[1, 1:3]
    for i in seq(0, 2):
        y[i] = v[i]
        v[i] = 0.0


@seed("window_stmt", "write_through_window")
@proc
def s_win_write(a: f32[8]):
    w = a[2:6]
    for i in seq(0, 4):
        w[i] = 1.0


@seed("call", "window", "offset")
@proc
def s_call_copy(n: size, x: f32[n + 2], y: f32[n]):
    sp_copy(n, y, x[1 : n + 1])


@seed("call", "window", "2d", "row")
@proc
def s_call_rows(n: size, m: size, A: f32[n, m], B: f32[n, m]):
    for i in seq(0, n):
        sp_copy(m, A[i, 0:m], B[i, 0:m])


@seed("call", "window", "2d", "col", "stride")
@proc
def s_call_cols(n: size, m: size, A: f32[n, m], B: f32[n, m]):
    for j in seq(0, m):
        sp_copy(n, A[0:n, j], B[0:n, j])


@seed("call", "scalar_ref")
@proc
def s_call_acc(n: size, x: f32[n], out: f32):
    out = 0.0
    sp_acc(n, x, out)


@seed("call", "assert", "size_expr")
@proc
def s_call_fill(n: size, x: f32[n + 1]):
    v: f32
    v = 7.0
    sp_fill(n + 1, v, x)


@seed("call", "index_arg")
@proc
def s_call_set(n: size, x: f32[n], v: f32):
    for i in seq(0, n):
        sp_set_at(n, i, x, v)


@seed("call", "2d", "window")
@proc
def s_call_add2d(n: size, A: f32[n + 1, 4], B: f32[n, 4]):
    sp_add2d(n, 4, A[1 : n + 1, 0:4], B)


@seed("call", "instr")
@proc
def s_call_instr(x: f32[8], y: f32[8]):
    ins_copy4(y[0:4], x[4:8])
    ins_copy4(y[4:8], x[0:4])


@seed("call", "stride", "assert")
@proc
def s_call_zero4(A: f32[4, 4]):
    for i in seq(0, 4):
        sp_zero4(A[i, 0:4])


@seed("replace_target")
@proc
def s_inline_copy(n: size, x: f32[n, 4], y: f32[n, 4]):
    for i in seq(0, n):
        for j in seq(0, 4):
            y[i, j] = x[i, j]


@seed("replace_target", "reduce")
@proc
def s_inline_axpy(n: size, a: f32, x: f32[n], y: f32[n]):
    for i in seq(0, n):
        y[i] += a * x[i]


@seed("config", "read")
@proc
def s_cfg_read(n: size, x: f32[n]):
    for i in seq(0, n):
        x[i] = CfgA.s


@seed("config", "write", "read")
@proc
def s_cfg_rw(n: size, k: index, x: f32[n]):
    CfgA.a = k
    for i in seq(0, n):
        if i < CfgA.a:
            x[i] = 1.0


@seed("config", "write", "control")
@proc
def s_cfg_ctrl(n: size, x: f32[n]):
    CfgA.a = 1
    for i in seq(0, n):
        if i == CfgA.a and CfgA.flag:
            x[i] = 9.0


@seed("config", "write", "call")
@proc
def s_cfg_call(n: size, x: f32[n]):
    sp_cfg_write(2)
    CfgA.s = 0.5
    sp_cfg_scale(n, x)


@seed("config", "write", "loop")
@proc
def s_cfg_loop(n: size, x: f32[n]):
    for i in seq(0, n):
        CfgA.b = n
        x[i] = 1.0


@seed("divmod", "negative")
@proc
def s_divmod(n: size, x: f32[4 * n], y: f32[n, 4]):
    for i in seq(0, 4 * n):
        y[i / 4, i % 4] = x[i]


@seed("divmod", "negative", "mod_neg")
@proc
def s_modneg(x: f32[4], y: f32[3]):
    for i in seq(0, 3):
        y[i] = x[(i - 3) % 4]


@seed("divmod", "index_arg", "div_neg")
@proc
def s_divneg(k: index, x: f32[8]):
    assert k >= -4
    assert k < 4
    x[(k + 4) / 2 + (k + 4) % 2] = 1.0
    x[(k - 1) / 2 + 3] += 2.0


@seed("shadow")
@proc
def s_shadow(n: size, x: f32[n], y: f32[n]):
    for i in seq(0, n):
        x[i] = 1.0
    for i in seq(0, n):
        for i in seq(0, 2):
            y[0] += 1.0


@seed("extern")
@proc
def s_extern(n: size, x: f32[n], y: f32[n]):
    for i in seq(0, n):
        y[i] = relu(x[i]) + select(x[i], 1.0, 2.0, y[i]) + fmaxf(x[i], 0.5)


@seed("extern", "uf")
@proc
def s_extern_uf(n: size, x: f32[n], y: f32[n]):
    for i in seq(0, n):
        y[i] = sin(x[i]) * 2.0 + sigmoid(x[i])


@seed("scalar_arg", "reduce")
@proc
def s_dot(n: size, x: f32[n], y: f32[n], out: f32):
    out = 0.0
    for i in seq(0, n):
        out += x[i] * y[i]


@seed("const_loop", "unroll")
@proc
def s_const_loop(x: f32[4], y: f32[4]):
    for i in seq(0, 4):
        y[i] = x[3 - i]


@seed("stencil", "loop2")
@proc
def s_stencil(n: size, m: size, x: f32[n + 1, m + 1], y: f32[n, m]):
    for i in seq(0, n):
        for j in seq(0, m):
            y[i, j] = x[i, j] + x[i + 1, j] + x[i, j + 1] + x[i + 1, j + 1]


@seed("merge", "writes")
@proc
def s_writes(x: f32[2], y: f32[2]):
    x[0] = y[0]
    x[0] += y[1]
    x[1] = 2.0
    x[1] = y[0] * y[1]


@seed("inline_assign", "hazard")
@proc
def s_hazard(b: f32[2], c: f32[2]):
    t: f32
    t = b[0]
    b[0] = 2.0
    c[0] = t


@seed("reassoc", "expr")
@proc
def s_expr(x: f32[3], y: f32[1]):
    y[0] = x[0] * (x[1] * x[2]) + (x[0] + (x[1] + x[2]))


@seed("reduce_const", "lift_reduce_constant")
@proc
def s_redconst(n: size, a: f32, x: f32[n], y: f32[1]):
    y[0] = 0.0
    for i in seq(0, n):
        y[0] += a * x[i]


@seed("dead", "guard")
@proc
def s_dead(n: size, x: f32[n]):
    for i in seq(0, n):
        if i < n:
            x[i] = 1.0
        else:
            x[i] = 2.0
    if n < 0:
        x[0] = 3.0


@seed("pass")
@proc
def s_pass(n: size, x: f32[n]):
    for i in seq(0, n):
        pass
    pass
    x[0] = 0.0


@seed("par")
@proc
def s_par(n: size, x: f32[n], y: f32[n]):
    for i in par(0, n):
        y[i] = x[i] + 1.0


@seed("par", "nested")
@proc
def s_par_nested(n: size, m: size, x: f32[n, m], y: f32[n]):
    for i in par(0, n):
        for j in seq(0, m):
            y[i] += x[i, j]


@seed("f64", "precision")
@proc
def s_f64(n: size, x: f64[n], y: f64[n]):
    for i in seq(0, n):
        y[i] = x[i] * 0.1


@seed("mem", "stack")
@proc
def s_stack(x: f32[4] @ DRAM, y: f32[4] @ DRAM):
    t: f32[4] @ DRAM_STACK
    for i in seq(0, 4):
        t[i] = x[i]
    for i in seq(0, 4):
        y[i] = t[3 - i]


@seed("mem", "static")
@proc
def s_static(x: f32[4] @ DRAM, y: f32[4] @ DRAM):
    t: f32[4] @ DRAM_STATIC
    for i in seq(0, 4):
        t[i] = x[i] * 2.0
    for i in seq(0, 4):
        y[i] = t[i]


@seed("window_arg", "stride_sym")
@proc
def s_winarg(n: size, m: size, src: [f32][n, m], dst: [f32][m, n]):
    for i in seq(0, n):
        for j in seq(0, m):
            dst[j, i] = src[i, j]


@seed("window_arg", "stride_assert")
@proc
def s_winarg_assert(n: size, src: [f32][n, 4], dst: [f32][n, 4]):
    assert stride(src, 1) == 1
    assert stride(dst, 1) == 1
    for i in seq(0, n):
        for j in seq(0, 4):
            dst[i, j] = src[i, j] + 1.0


@seed("expand_dim", "alloc_in_loop")
@proc
def s_expand(n: size, x: f32[n], y: f32[n]):
    for i in seq(0, n):
        t: f32
        t = x[i] * x[i]
        y[i] = t


@seed("two_allocs", "reuse")
@proc
def s_reuse(n: size, x: f32[n], y: f32[n]):
    a: f32[n]
    for i in seq(0, n):
        a[i] = x[i]
    for i in seq(0, n):
        y[i] = a[i]
    b: f32[n]
    for i in seq(0, n):
        b[i] = y[i] * 2.0
    for i in seq(0, n):
        y[i] = b[i]


@seed("cut", "index_arg")
@proc
def s_cut(n: size, c: index, x: f32[n]):
    assert c >= 0
    assert c <= n
    for i in seq(0, n):
        x[i] = 1.0


@seed("size_expr_bound")
@proc
def s_half(n: size, x: f32[n]):
    for i in seq(0, n / 2):
        x[2 * i] = 0.0


@seed("mult_loops")
@proc
def s_mult(n: size, x: f32[n, 3]):
    for i in seq(0, n):
        for j in seq(0, 3):
            x[i, j] = 1.0


@sub
@seed("sub", "window", "loop1")
@proc
def sp_fill8(w: [f32][8]):
    for j in seq(0, 8):
        w[j] = 1.0


@sub
@seed("sub", "window", "loop1")
@proc
def sp_copy8(dst: [f32][8], src: [f32][8]):
    for j in seq(0, 8):
        dst[j] = src[j]


@seed("winwin", "call", "alloc")
@proc
def s_winwin_call(out: f32[8]):
    # x is only touched through y = x[4:8, :]; row 6 of x is written and read through the window of a window
    # y[2, 0:8] (point coordinate on a dimension whose outer window starts at 4) handed to sub-procedures
    x: f32[12, 8]
    y = x[4:8, 0:8]
    sp_fill8(y[2, 0:8])
    sp_copy8(out[0:8], y[2, 0:8])


@seed("winwin", "call", "alloc", "loop1")
@proc
def s_winwin_call_loop(out: f32[4, 8]):
    x: f32[10, 8]
    y = x[6:10, 0:8]
    for i in seq(0, 4):
        sp_fill8(y[i, 0:8])
    for i in seq(0, 4):
        for j in seq(0, 8):
            out[i, j] = x[6 + i, j]


@seed("config", "loop1", "late_read")
@proc
def s_cfg_late_read(n: size, x: f32[n]):
    # the configuration write in iteration i is only read in a LATER iteration, under an index-dependent guard
    assert n > 1
    for i in seq(0, n):
        if i == n - 1:
            if CfgA.a == 3:
                x[i] = 1.0
        CfgA.a = 3


@seed("config", "loop1", "late_read", "call")
@proc
def s_cfg_late_read_call(n: size, x: f32[n]):
    assert n > 1
    for i in seq(0, n):
        if i > 0:
            if CfgA.a == 7:
                x[i] = 2.0
        sp_cfg_write(7)


@seed("if_else", "blocks")
@proc
def s_if_else_blocks(n: size, b: bool, x: f32[n], y: f32[n], z: f32[n]):
    # several statements in the then- and in the else-branch of one `if` (moves inside one branch must leave
    # cursors into the other branch alone)
    assert n > 1
    for i in seq(0, n):
        if b:
            x[i] = 1.0
            y[i] = 2.0
            z[i] = 3.0
        else:
            z[i] = 4.0
            y[i] = 5.0
            x[i] = 6.0


@seed("call", "stride_assert", "rows")
@proc
def s_rows_unit(A: f32[4, 4], B: f32[4, 4]):
    # rows of dense 2-D arguments handed to callees that assert unit stride
    for i in seq(0, 4):
        sp_zero4(A[i, 0:4])
    for i in seq(0, 4):
        ins_copy4(B[i, 0:4], A[i, 0:4])


@seed("shadow", "inline")
@proc
def s_shadow_arg(n: size, k: index, x: f32[8], y: f32[8]):
    # loop iterators that print like the arguments n and k (legal shadowing)
    assert n <= 8
    assert k >= 0 and k < 4
    for n in seq(0, 4):
        x[n] = y[n + k]
    for k in seq(0, n):
        y[k] = 1.0


@seed("alloc", "loop2", "dims")
@proc
def s_alloc2d_lit(x: f32[8]):
    # 2-D scratch buffer with literal extents (mult_dim / divide_dim / rearrange_dim / resize_dim all apply)
    a: f32[2, 4]
    for i in seq(0, 2):
        for j in seq(0, 4):
            a[i, j] = x[4 * i + j]
    for i in seq(0, 2):
        for j in seq(0, 4):
            x[4 * i + j] = a[i, j] + 1.0


@seed("data_const")
@proc
def s_real_consts(x: f32[2], y: f32[2]):
    # real-valued constant sub-expressions (division, product, difference of literals)
    for i in seq(0, 2):
        y[i] = x[i] * (1.0 / 3.0) + (2.0 * 0.25) - (1.0 - 0.5) / 4.0


@seed("alloc", "if_else", "free")
@proc
def s_else_last_use(n: size, f: index, src: f32[n], dst: f32[n]):
    # the last use of tmp is in the else-branch
    tmp: f32[n]
    for i in seq(0, n):
        tmp[i] = 2.0 * src[i]
    if f > 1:
        for i in seq(0, n):
            dst[i] = src[i]
    else:
        for i in seq(0, n):
            dst[i] = tmp[i]


def by_name(name):
    for nm, p, tags in SEEDS:
        if nm == name:
            return p
    raise KeyError(name)


# --------------------------------------------------------------------------
# callee variants for call_eqv (C10) and near-miss targets for replace (C05)

from exo.stdlib.scheduling import simplify as _simplify, rename as _rename, divide_loop as _divide_loop, write_config as _write_config, reorder_loops as _reorder_loops

ORIGIN = {p.name(): p.name() for p in SUBPROCS}


def _variant(p, origin):
    SUBPROCS.append(p)
    ORIGIN[p.name()] = origin
    return p


# equivalence-preserving derivations of sp_copy / sp_add2d / sp_cfg_scale
sp_copy_v2 = _variant(_rename(_divide_loop(sp_copy, "i", 2, ["io", "ii"], tail="cut"), "sp_copy_v2"), "sp_copy")
sp_copy_cfg = _variant(_rename(_write_config(sp_copy, sp_copy.body()[0].before(), CfgA, "b", 1), "sp_copy_cfg"), "sp_copy")
sp_add2d_v2 = _variant(_rename(_reorder_loops(sp_add2d, "i j"), "sp_add2d_v2"), "sp_add2d")
sp_cfg_scale_v2 = _variant(_rename(_simplify(sp_cfg_scale), "sp_cfg_scale_v2"), "sp_cfg_scale")
# NOT equivalence-tracked: signature/assertion-changing derivations (call_eqv must refuse them)
sp_fill_asrt = _variant(_rename(sp_fill.add_assertion("n > 2"), "sp_fill_asrt"), "NEW:sp_fill_asrt")
sp_copy_pe = _variant(_rename(sp_copy.partial_eval(n=4), "sp_copy_pe"), "NEW:sp_copy_pe")


# same text as sp_copy but a different origin
@sub
@seed("sub", "window", "loop1", "twin")
@proc
def sp_copy_twin(n: size, dst: [f32][n], src: [f32][n]):
    for i in seq(0, n):
        dst[i] = src[i]


ORIGIN["sp_copy_twin"] = "sp_copy_twin"


@seed("call", "config", "call_eqv")
@proc
def s_call_cfg_scale(n: size, x: f32[n], y: f32[n]):
    CfgA.s = 2.0
    sp_cfg_scale(n, x)
    sp_copy(n, y, x)
    CfgA.b = 0


@seed("replace_target", "transposed")
@proc
def s_nm_transposed(n: size, x: f32[n, n], y: f32[n, n]):
    for j in seq(0, n):
        for i in seq(0, n):
            y[i, j] = x[j, i]


@seed("replace_target", "strided")
@proc
def s_nm_strided(n: size, x: f32[2 * n], y: f32[n]):
    for i in seq(0, n):
        y[i] = x[2 * i]


@seed("replace_target", "reversed")
@proc
def s_nm_reversed(n: size, x: f32[n], y: f32[n]):
    for i in seq(0, n):
        y[i] = x[n - 1 - i]


@seed("replace_target", "offset")
@proc
def s_nm_offset(n: size, x: f32[n + 3], y: f32[n + 3]):
    for i in seq(0, n):
        y[i + 1] = x[i + 2]


@seed("replace_target", "col_zero", "stride")
@proc
def s_nm_col_zero(A: f32[4, 4]):
    for j in seq(0, 4):
        for i in seq(0, 4):
            A[i, j] = 0.0


@seed("replace_target", "fill_one", "assert")
@proc
def s_nm_fill1(x: f32[4], v: f32):
    for i in seq(0, 1):
        x[i] = v
    for i in seq(0, 3):
        x[i + 1] = v


@seed("replace_target", "set_at_edge", "assert")
@proc
def s_nm_set_edge(n: size, x: f32[n + 1], v: f32):
    x[n] = v
    x[0] = v


@seed("replace_target", "acc")
@proc
def s_nm_acc(n: size, x: f32[n], out: f32):
    out = 0.0
    for i in seq(0, n):
        out += x[i]


@seed("replace_target", "add2d_swapped")
@proc
def s_nm_add2d(n: size, m: size, A: f32[n, m], B: f32[m, n]):
    for i in seq(0, n):
        for j in seq(0, m):
            A[i, j] += B[j, i]


@seed("replace_target", "vec8")
@proc
def s_vec8(x: f32[16], y: f32[16], z: f32[16]):
    for i in seq(0, 8):
        z[i] = x[i] * y[i]
    for i in seq(0, 8):
        z[8 + i] += x[8 + i] * y[i]


@seed("replace_target", "vec8", "prefix")
@proc
def s_vec8_prefix(m: size, x: f32[8], y: f32[8]):
    assert m <= 8
    for i in seq(0, 8):
        if i < m:
            y[i] = x[i]


@seed("names", "i_1")
@proc
def s_names(n: size, x: f32[2 * n, 2]):
    for i in seq(0, 2 * n):
        for i_1 in seq(0, 2):
            x[i, i_1] = 1.0
