"""Tight family for replace (C05): callees with the features unification has to
get exactly right (branch without else, two different div/mod index
expressions, loop lower bounds, operand order, strides, size arguments) and,
for each, host procedures that are exact instances and hosts that miss being an
instance by one edit.  Every (block, callee) pair of every host goes through the
real replace(); what it accepts is decided by z3 (equivalence with the call
executed from the callee's body, call-site obligations, inline-back).

TR_SUBPROCS: callees;  TR_SEEDS: (name, Procedure, tags)
"""
from __future__ import annotations

from exo import proc, DRAM

TR_SUBPROCS = []
TR_SEEDS = []
TR_REJECTED = {}


def _sub(p):
    TR_SUBPROCS.append(p)
    return p


@_sub
@proc
def tr_masked_copy(n: size, m: index, dst: [f32][n], src: [f32][n]):
    for i in seq(0, n):
        if i < m:
            dst[i] = src[i]


@_sub
@proc
def tr_select_copy(n: size, m: index, dst: [f32][n], src: [f32][n]):
    for i in seq(0, n):
        if i < m:
            dst[i] = src[i]
        else:
            dst[i] = 0.0


@_sub
@proc
def tr_copy4(dst: [f32][4], src: [f32][4]):
    for j in seq(0, 4):
        dst[j] = src[j]


@_sub
@proc
def tr_copy8(dst: [f32][8], src: [f32][8]):
    for i in seq(0, 8):
        dst[i] = src[i]


@_sub
@proc
def tr_copyn(n: size, dst: [f32][n], src: [f32][n]):
    for i in seq(0, n):
        dst[i] = src[i]


@_sub
@proc
def tr_put2(p: index, q: index, a: [f32][8], b: [f32][8]):
    assert p >= 0 and p < 8
    assert q >= 0 and q < 8
    a[p] = b[q]


@_sub
@proc
def tr_axpy4(a: f32, x: [f32][4], y: [f32][4]):
    for i in seq(0, 4):
        y[i] += a * x[i]


@_sub
@proc
def tr_sub4(dst: [f32][4], a: [f32][4], b: [f32][4]):
    for i in seq(0, 4):
        dst[i] = a[i] - b[i]


@_sub
@proc
def tr_unit4(dst: [f32][4], src: [f32][4]):
    assert stride(dst, 0) == 1
    assert stride(src, 0) == 1
    for i in seq(0, 4):
        dst[i] = src[i]


@_sub
@proc
def tr_row_then_col(dst: [f32][4, 4], src: [f32][4, 4]):
    for i in seq(0, 4):
        for j in seq(0, 4):
            dst[i, j] = src[i, j]


@_sub
@proc
def tr_two_stmts(dst: [f32][4], src: [f32][4]):
    for i in seq(0, 4):
        dst[i] = src[i]
    for i in seq(0, 4):
        dst[i] += 1.0


HOSTS = r'''
@proc
def trh_mask_exact(x: f32[8], y: f32[8]):
    for i in seq(0, 8):
        if i < 5:
            x[i] = y[i]

@proc
def trh_mask_else(x: f32[8], y: f32[8]):
    for i in seq(0, 8):
        if i < 5:
            x[i] = y[i]
        else:
            x[i] = 0.0

@proc
def trh_mask_else_other(x: f32[8], y: f32[8], z: f32[8]):
    for i in seq(0, 8):
        if i < 5:
            x[i] = y[i]
        else:
            z[i] = 1.0

@proc
def trh_mask_le(x: f32[8], y: f32[8]):
    for i in seq(0, 8):
        if i <= 5:
            x[i] = y[i]

@proc
def trh_mask_shift(x: f32[8], y: f32[9]):
    for i in seq(0, 8):
        if i < 5:
            x[i] = y[i + 1]

@proc
def trh_mask_sym(n: size, k: index, x: f32[n], y: f32[n]):
    for i in seq(0, n):
        if i < k:
            x[i] = y[i]

@proc
def trh_mask_cond_other(n: size, k: index, x: f32[n], y: f32[n]):
    for i in seq(0, n):
        if k < i:
            x[i] = y[i]

@proc
def trh_div_two(x: f32[16], y: f32[16]):
    for i in seq(0, 4):
        for j in seq(0, 4):
            x[4 * ((i + 1) / 2) + j] = y[4 * ((i - 1) / 2 + 1) + j]

@proc
def trh_div_same(x: f32[16], y: f32[16]):
    for i in seq(0, 4):
        for j in seq(0, 4):
            x[4 * ((i + 1) / 2) + j] = y[4 * ((i + 1) / 2) + j]

@proc
def trh_mod_two(x: f32[16], y: f32[16]):
    for i in seq(0, 6):
        for j in seq(0, 4):
            x[4 * ((i + 1) % 3) + j] = y[4 * ((i - 1) % 3) + j]

@proc
def trh_div_put(a: f32[8], b: f32[8]):
    for i in seq(0, 8):
        a[(i + 2) / 3] = b[(i - 2) / 3 + 2]

@proc
def trh_div_mod_put(a: f32[8], b: f32[8]):
    for i in seq(0, 8):
        a[i / 3] = b[i % 3]

@proc
def trh_lo2(x: f32[8], y: f32[6]):
    for i in seq(2, 8):
        y[i - 2] = x[i]

@proc
def trh_lo0_shift(x: f32[8], y: f32[6]):
    for i in seq(0, 6):
        y[i] = x[i + 2]

@proc
def trh_lo1_8(x: f32[9], y: f32[9]):
    for i in seq(1, 9):
        y[i] = x[i]

@proc
def trh_lo_sym(n: size, lo: index, x: f32[n], y: f32[n]):
    assert lo >= 0 and lo <= n
    for i in seq(lo, n):
        y[i] = x[i]

@proc
def trh_hi_short(x: f32[8], y: f32[8]):
    for i in seq(0, 7):
        y[i] = x[i]

@proc
def trh_axpy_exact(a: f32, x: f32[8], y: f32[8]):
    for i in seq(0, 4):
        y[i + 4] += a * x[i]

@proc
def trh_axpy_commuted(a: f32, x: f32[8], y: f32[8]):
    for i in seq(0, 4):
        y[i] += x[i] * a

@proc
def trh_axpy_assign(a: f32, x: f32[8], y: f32[8]):
    for i in seq(0, 4):
        y[i] = a * x[i]

@proc
def trh_axpy_two_x(a: f32, x: f32[8], y: f32[8]):
    for i in seq(0, 4):
        y[i] += x[i + 1] * x[i]

@proc
def trh_axpy_self(a: f32, x: f32[8]):
    for i in seq(0, 4):
        x[i + 4] += a * x[i]

@proc
def trh_sub_swapped(d: f32[4], a: f32[4], b: f32[4]):
    for i in seq(0, 4):
        d[i] = b[i] - a[i]

@proc
def trh_sub_same(d: f32[4], a: f32[4]):
    for i in seq(0, 4):
        d[i] = a[i] - a[i]

@proc
def trh_col(x: f32[4, 4], y: f32[4, 4]):
    for j in seq(0, 4):
        for i in seq(0, 4):
            x[i, j] = y[i, j]

@proc
def trh_col_unit(x: f32[4, 4], y: f32[4, 4]):
    for j in seq(0, 4):
        for i in seq(0, 4):
            x[i, j] = y[j, i]

@proc
def trh_transposed(x: f32[4, 4], y: f32[4, 4]):
    for i in seq(0, 4):
        for j in seq(0, 4):
            x[i, j] = y[j, i]

@proc
def trh_strided(x: f32[8], y: f32[8]):
    for i in seq(0, 4):
        x[2 * i] = y[i]

@proc
def trh_reversed(x: f32[4], y: f32[4]):
    for i in seq(0, 4):
        x[3 - i] = y[i]

@proc
def trh_two_then_more(x: f32[4], y: f32[4], z: f32[4]):
    for i in seq(0, 4):
        x[i] = y[i]
    for i in seq(0, 4):
        x[i] += 1.0
    for i in seq(0, 4):
        z[i] = x[i]

@proc
def trh_two_other_const(x: f32[4], y: f32[4]):
    for i in seq(0, 4):
        x[i] = y[i]
    for i in seq(0, 4):
        x[i] += 2.0

@proc
def trh_two_other_buf(x: f32[4], y: f32[4], z: f32[4]):
    for i in seq(0, 4):
        x[i] = y[i]
    for i in seq(0, 4):
        z[i] += 1.0

@proc
def trh_win_host(n: size, x: [f32][n, 8], y: [f32][n, 8]):
    for k in seq(0, n):
        for i in seq(0, 8):
            x[k, i] = y[k, i]

@proc
def trh_win_host_col(n: size, x: [f32][8, n], y: [f32][8, n]):
    for k in seq(0, n):
        for i in seq(0, 8):
            x[i, k] = y[i, k]
'''


def _load_hosts():
    import re

    chunks = [c for c in re.split(r"\n(?=@proc\n)", HOSTS.strip()) if c.strip()]
    for ch in chunks:
        m = re.search(r"def (\w+)\(", ch)
        name = m.group(1)
        ns = {"proc": proc, "DRAM": DRAM}
        try:
            # @proc needs source text: go through a generated module file
            from vlib.mutate_src import build_module

            mod = build_module("tr_" + name, [(name, ch + "\n")])
            if name in mod.PROCS:
                TR_SEEDS.append((name, mod.PROCS[name], {"tight_replace"}))
            else:
                TR_REJECTED[name] = mod.REJ.get(name)
        except Exception as ex:  # noqa
            TR_REJECTED[name] = repr(ex)


_load_hosts()
