#!/bin/sh
# Offline setup: byte-compile the framework; build the CrossHair overlay venv.
set -e
cd "$(dirname "$0")"
/venv/bin/python -m compileall -q vlib corpus >/dev/null 2>&1 || true
if [ ! -x .venv/bin/crosshair ]; then
  rm -rf .venv
  /venv/bin/python -m venv .venv
  SP=$(.venv/bin/python -c "import site; print(site.getsitepackages()[0])")
  echo "import site; site.addsitedir('/venv/lib/python3.12/site-packages')" > "$SP/_base.pth"
  PIP_NO_INDEX=1 .venv/bin/pip install -q --no-index --find-links /opt/veriftools/wheels crosshair-tool >/dev/null 2>&1 || echo "crosshair install failed"
fi
exit 0
