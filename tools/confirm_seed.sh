#!/bin/sh
# usage: tools/confirm_seed.sh <dir with patch.diff + demo.py> <scratch worktree of /repo (clean)>
# Confirms a seeded change independently: patch applies, demo fails with it and passes without it,
# the existing test suite has exactly the baseline's failing set with it.  Writes <dir>/confirm.json.
set -u
D="$1"; WT="$2"
cd "$WT" || exit 3
git checkout -q -- . || exit 3
PY="env PYTHONPATH=$WT/src /venv/bin/python"
$PY "$D/demo.py" > "$D/confirm_demo_clean.log" 2>&1; rc_clean=$?
git apply "$D/patch.diff" || { echo "patch does not apply"; exit 3; }
$PY "$D/demo.py" > "$D/confirm_demo_patched.log" 2>&1; rc_patched=$?
$PY -m pytest -q -p no:cacheprovider --timeout=1800 --continue-on-collection-errors -n ${NPROC:-8} -rf > "$D/confirm_suite.log" 2>&1
grep "^FAILED" "$D/confirm_suite.log" | sed 's/ - .*//' | sort > "$D/confirm_failed.txt"
nfail=$(wc -l < "$D/confirm_failed.txt")
nother=$(grep -v "tests/test_codegen.py\|tests/test_externs.py\|tests/test_precision.py::test_good_prec1" "$D/confirm_failed.txt" | wc -l)
summary=$(tail -1 "$D/confirm_suite.log")
git checkout -q -- .
$PY "$D/demo.py" > /dev/null 2>&1; rc_clean2=$?
printf '{"demo_exit_clean": %s, "demo_exit_patched": %s, "demo_exit_clean_again": %s, "suite_failed": %s, "suite_failed_outside_baseline": %s, "suite_summary": "%s"}\n' "$rc_clean" "$rc_patched" "$rc_clean2" "$nfail" "$nother" "$summary" > "$D/confirm.json"
cat "$D/confirm.json"
