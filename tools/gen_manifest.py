#!/usr/bin/env python3
"""Regenerates MANIFEST.json from the table below (single source of truth)."""
import json, os

HERE = os.path.dirname(os.path.dirname(os.path.abspath(__file__)))

TV = "translation_validation"
MC = "model_checking"
OT = "other"

CHECKS = {
    "C01": dict(
        category=TV, engine="loopsym",
        technique="bounded symbolic execution of original and derived LoopIR into z3 (arrays+LIA+reals); equivalence query per accepted (procedure, op, args) instance; counterexamples replayed by a solver-free interpreter",
        text="For every accepted instance of the schedule family (corpus procedures x all introspected scheduling ops x generated argument candidates, plus depth-2 chains) z3 decides, for ALL inputs within the stated bounds (sizes<=N, index args in a box, arbitrary real buffer contents and configuration), that original and derived procedure leave identical argument buffers and configuration outside the reported set. Program/schedule quantifiers are covered by the stated family, inputs by the solver.",
        note="Trusted: z3, the loopsym reference semantics (DESIGN App. A, validated against compiled C by C02's encoder validation), reals for floats. Bounds: sizes<=3 (quick)/4 (thorough), unroll cap, statement budget; instances exceeding them are counted as skipped.",
        design="5/C01"),
    "C02": dict(
        category=TV, engine="llsym",
        technique="symbolic execution of the LLVM IR of the emitted C (clang-14 -O0 -> opt -always-inline -mem2reg -> own IR interpreter with path forking and z3) against loopsym on the same LoopIR, sharing the initial memory; final memory compared address by address by z3; counterexamples replayed natively (gcc, ASan/UBSan)",
        text="For every corpus procedure as written and after one accepted layout/memory/precision/window/loop schedule: the real backend's C is compiled by clang (with -Werror for pointer/qualifier/implicit-declaration problems; a compile error is itself a violation), every path of its IR is executed for every size valuation within bounds, and z3 decides that every element of every argument buffer (at every address of the allocation, so 'everything else unchanged' is included), every scalar by reference and every context-struct field ends in the state the LoopIR semantics prescribes -- for all buffer contents, index/bool arguments, window base offsets and strides, and initial configuration.",
        note="Sizes are case-split by solver enumeration (<=3 quick, <=4 thorough); reals for floats; libm functions uninterpreted; intrinsic models are hand-written and listed in evidence; cells the reference leaves undefined are not judged.",
        design="5/C02"),
    "C03": dict(
        category=MC, engine="loopsym",
        technique="bounded model checking of every front-end-accepted source (corpus + one-edit source mutants): loopsym emits every safety obligation, z3 searches for an input satisfying the program's assertions that violates one; replay by a solver-free interpreter",
        text="Each seed and each one-edit mutant (index +-1, bound +-1, comparison flipped, window interval shifted, call arguments swapped, assertion dropped/weakened, allocation shrunk) is given to the real @proc/@instr; for every accepted text z3 decides, for all sizes<=N / index args in a box / bools, that no access leaves the view or base extent, no window interval leaves its parent, no loop has hi<lo, and every call has sizes>=1, matching shapes, satisfied assertions and non-overlapping buffer arguments.",
        note="Rejected sources only contribute counts. Bounded unrolling with solver-computed trip-count maxima; obligations are control-only LIA+div/mod formulas.",
        design="5/C03"),
    "C04": dict(
        category=TV, engine="loopsym",
        technique="bounded symbolic execution of the derived LoopIR; every safety obligation (bounds, window, loop range, call preconditions, shapes, aliasing, poison) posed to z3 under the original's assertions; structural scope validator; real compile attempt",
        text="For every accepted schedule instance: (a) structural scope check of the derived tree, (b) z3 decides that no input satisfying the original's assertions (and on which the original is itself safe) violates any safety obligation of the derived procedure, (c) definedness is preserved (part of the C01 query), (d) the real backend compiles it or raises a documented error.",
        note="Trusted: z3, loopsym obligations generator. Same bounds as C01.",
        design="5/C04"),
    "C05": dict(
        category=TV, engine="loopsym",
        technique="for every accepted replace(block, callee): z3 equivalence query with the call executed from the callee's body (loopsym), z3 check of all call-site obligations (sizes>=1, shapes, callee assertions incl. stride assertions, no aliasing, window bounds), and a second equivalence query after inlining the inserted call back",
        text="Instances: every block (length<=3) of every corpus procedure (including near-miss targets: transposed, strided, reversed, offset, column access for a stride-1 callee, size-1 fill for a callee asserting n>1, edge index) x every corpus sub-procedure and a pool of x86 instructions. Whenever unification succeeds, z3 decides for all inputs within bounds that the call has exactly the effect of the replaced statements, that the inferred arguments satisfy the callee's signature and assertions, and that inlining gives back an equivalent program.",
        note="Callees outside the pool are not covered. Same bounds/trusted base as C01.",
        design="5/C05"),
    "C06": dict(
        category=OT, engine="crosshair+z3",
        technique="L1: CrossHair symbolic execution (z3) of the real internal_cursors.py edit+forwarding code on a mock tree with symbolic sizes, edit locations and cursor positions; L2: exhaustive forwarding of every statement/block/gap cursor of every sweep instance through the real composed forwarding closures",
        text="L1 decides, for insert / delete / replace / wrap / move at arbitrary positions (top-level or nested) and arbitrary observed node or block cursors, that the forwarded cursor is invalid or denotes the statement(s) with the same labels. L2 covers the compositions inside each primitive: every cursor of every accepted instance (and depth-2 chains) is forwarded and compared by statement kind and source tag; un-forwarded cursors passed to a second operation must give the same result as explicitly forwarded ones.",
        note="'other': L1 is per-path symbolic execution under a time budget on trees of bounded size (top level <= 3 quick / 5 thorough, one nested body/orelse); L2 has a finite domain per instance (solver only used by CrossHair in L1). Expression cursors are outside.",
        design="5/C06"),
    "C07": dict(
        category=TV, engine="loopsym",
        technique="snapshot/re-encode equivalence: the z3 encoding and structural fingerprint of every live procedure taken before each (accepted or rejected) scheduling call is compared with a re-encoding after it",
        text="After every scheduling call of the sweep, successful or failing, every procedure alive before the call (source, corpus sub-procedures) is fingerprinted again; any change is decided behaviourally by z3 (old vs new encoding, all inputs within bounds); cursors created before the call must still resolve to the identical node objects; printed text must be byte-identical.",
        note="Behavioural clause is solver-decided; print/cursor identity are concrete observations. Stale analysis caches and cross-process effects are outside.",
        design="5/C07"),
    "C08": dict(
        category=MC, engine="llsym",
        technique="same llsym exploration as C02; every memory access, signed nsw arithmetic, division, shift, llvm.assume, malloc/free and function return emits an obligation that z3 must prove under the path condition; counterexamples replayed natively under ASan/UBSan",
        text="On every explored path of the emitted C's IR: allocation alive (no use after free), 0 <= offset and offset+size <= allocation size (no out-of-bounds), alignment to the element, no signed overflow in nsw index arithmetic, no division by zero, shift amounts in range, EXO_ASSUME conditions hold, free only of live malloc'd base pointers exactly once, and every malloc'd buffer freed before return.",
        note="malloc never returns NULL (allocation failure outside C08); sizes < 2^31; writes through const-qualified parameters are caught as clang errors (C02 by-product) rather than by provenance tracking.",
        design="5/C08"),
    "C09": dict(
        category=MC, engine="loopsym",
        technique="bounded model checking over pairs of iterations: sequential symbolic execution with an access log; for every parallel-loop instance z3 searches for two different iterations touching the same location with at least one write/reduce; replay by a solver-free interpreter with an access log",
        text="Programs: corpus procedures with par loops as written, parallelize_loop at every loop position / pairs of positions / inside callees via call_eqv, and the same on one-edit source mutants. Whenever the real backend compiles such a program, z3 decides for all inputs within bounds that no two iterations of any parallel loop conflict (write-write, write-read, reduce-reduce, configuration writes included).",
        note="Trip counts <= N. States come from the sequential execution, so nothing unreachable is considered. OpenMP runtime is outside.",
        design="5/C09"),
    "C10": dict(
        category=TV, engine="loopsym",
        technique="C01 equivalence query with symbolic initial configuration on config-using procedures; the ignored set of fields is exactly what the real get_strictest_eqv_proc reports; for call_eqv additionally an origin check against the corpus' construction record",
        text="Instances: config-reading/writing corpus procedures and callers of config-touching sub-procedures x bind_config, write_config, delete_config, call_eqv (callee variants derived with and without config-touching steps, a same-text twin of another origin, partial_eval/add_assertion variants) and every other scheduling op around config reads/writes. z3 decides for all inputs and all initial configuration states within bounds that buffers are identical and that every field whose final value can differ is in the reported set; an accepted call_eqv whose new callee has another origin is a violation.",
        note="Same bounds/trusted base as C01; control-typed config fields are boxed like index arguments.",
        design="5/C10"),
    "C11": dict(
        category=MC, engine="py2smt",
        technique="inductive step by symbolic execution of proc_eqv.py from its AST (py2smt) into z3 bit-vector/Boolean formulas: from an arbitrary invariant-satisfying state, every operation preserves the invariant and matches the per-key closure specification; queries answer exactly the abstract relations; obligations discharged from SMT-LIB2 dumps in parallel",
        text="One inductive step from an ARBITRARY valid state (forests of up to 4 procedures, up to 3 keys of which any may be untracked) covers histories of any length: decl_new_proc, derive_proc, assert_eqv_proc with a symbolic modulo-set (including keys first mentioned now), check_eqv_proc and get_strictest_eqv_proc are executed symbolically from the current source; the invariant is proved established by the empty state. Cross-check: all histories up to length 3 (4 thorough) over 3 procedures / 2 keys replayed on the real module against a reference closure.",
        note="Bounded: n<=4 procedures, K<=3 keys, find unrolled n times with an unwinding obligation. py2smt aborts (exit 3) on any construct outside its subset and is validated against the real module on random concrete histories on every run. A step counterexample that no explored history reproduces is reported as a harness condition (invariant too weak), not as a violation.",
        design="5/C11"),
    "C12": dict(
        category=TV, engine="exprtv",
        technique="lock-step walk of original and simplified LoopIR; per pair of corresponding control expressions a z3 query PC /\\ old != new over unbounded integers (LIA + div/mod by literals); removed branches/loops need PC => (not) cond / hi <= lo; models replayed by a solver-free evaluator",
        text="For an expression corpus (hand-written quasi-affine shapes incl. quotient-remainder, nested div/mod, negative numerators, shadowed names, config reads + grammar-generated shapes) placed in every context kind (index, guard, loop bound, alloc size, window bound, call argument, config write) under loops/guards/assertions, and for all corpus procedures and derived ones: simplify is run for real and every rewritten expression is proved equal to the original for ALL integer valuations admitted by the context (unbounded).",
        note="Unbounded in the integers, bounded in expression shapes (stated family). Path conditions are the checker's own. Unalignable programs are counted as such, never as passes.",
        design="5/C12"),
    "C13": dict(
        category=OT, engine="crosshair+z3",
        technique="CrossHair symbolic execution (z3) of the real IndexRange / index_range_analysis / constant_bound code per expression shape; z3 validity queries over unbounded integers for every range claim logged while compiling/simplifying and for infer_range results",
        text="L1: for each expression shape (all shapes to depth 2, sampled depth 3, over + - * / % unary minus; bound and free variables) CrossHair explores every path of the real interval code with symbolic optional range ends, additive constants and valuation, and must report 'Confirmed over all paths' that the value lies inside the returned range; also join and partial_eval_with_range. L2: every claim the analysis makes in context is re-proved by z3 from the checker's own variable ranges.",
        note="'other' because L1 is per-path symbolic execution under a time budget (CrossHair), L2 unbounded SMT validity. Literals for scaling/divisors are concrete ({-3,-1,2}/{1,2,3,8}). Reachability twins must be refuted.",
        design="5/C13"),
    "C14": dict(
        category=TV, engine="llsym",
        technique="per @instr of exo.platforms.x86: a generated wrapper procedure is compiled by the real compiler, the resulting C fragment's LLVM IR is executed by llsym and compared by z3 with loopsym on the instruction's Exo body (C02 machinery); counterexamples replayed natively on the host CPU",
        text="Every x86 instruction (AVX2 and AVX-512) is called once from a wrapper whose DRAM operands are window arguments (symbolic base offset), register operands are AVX2/AVX512 allocations loaded/stored with the library's plain load/store instructions, and size/mask operands range over everything the instruction's assertions allow; z3 decides for all operand lanes that the C fragment has exactly the effect of the Exo body. A C fragment that does not compile is a violation.",
        note="Exhaustive in the control arguments (lane counts 4/8/16 and asserted ranges). Not judged and listed in evidence: integer-data arithmetic (avx2_ui16_divide_by_3, mm256_add_epi16, si256 load/store), prefetch. Intrinsic models are hand-written (trusted base).",
        design="5/C14"),
    "C16": dict(
        category=OT, engine="crosshair+z3",
        technique="CrossHair symbolic execution (z3) of the real internal_cursors.py and API_cursors.py navigation code with symbolic positions/distances; concrete '#n' / order checks of find() against its own many=True result on every corpus procedure",
        text="Navigation laws (next/prev inverse and InvalidCursor at edges, parent/child, before/after/anchor and gap adjacency, block indexing incl. negative indices, slicing composition, expand clamping) are confirmed over all paths on a mock tree (internal API) and on a real corpus procedure (public API). find(): '#n' returns exactly element n of the many=True result, one past the end raises, results are duplicate-free and in program order.",
        note="Not claimed: that the match set equals what an independent matcher finds for arbitrary pattern strings (purely syntactic; would be differential testing).",
        design="5/C16"),
    "C17": dict(
        category=TV, engine="loopsym",
        technique="print -> real @proc parse -> alpha-equivalence walk + z3 equivalence query (loopsym) between the procedure and its re-parsed text",
        text="For every corpus procedure and every derived procedure of the sweep: the printed text is parsed again by the real front end with the same memories/configs/callees in scope; the two trees must be alpha-equivalent (each use bound to the image of its original declaration: this is the scope rule), print identically, and z3 decides behavioural equality for all inputs within bounds.",
        note="The solver decides behavioural faithfulness; alpha-equivalence and text identity are concrete observations. Texts the front end refuses for type/bounds/effect reasons (stricter acceptance of scheduled programs) are counted, not judged; ill-formed derived procedures are C04's business.",
        design="5/C17"),
    "C19": dict(
        category=TV, engine="loopsym",
        technique="C01 equivalence query under an input relation (partial_eval: fixed arguments; transpose: A'[j,i]=A[i,j] via a lambda array; add_assertion: implication of assertion sets + equivalence under the stronger assertions) and plain C01 query for annotation-only ops",
        text="partial_eval over every single control argument and sampled pairs with all in-range values; transpose of every 2-D argument; add_assertion texts; rename/make_instr/set_precision/set_memory/set_window/parallelize_loop at every candidate: one z3 query each over all inputs within the bounds.",
        note="Same bounds, reals model and trusted base as C01.",
        design="5/C19"),
}

NOT_APPLICABLE = [
    ("C15", "Oracle is a C compiler's acceptance verdict plus a finite product of annotation choices walked by purely syntactic analyses; symbolic execution degenerates to enumerating that product (DESIGN 6). Compilability of every C02/C08/C14 instance with clang -Werror=... is still enforced as a by-product under C02."),
    ("C18", "Quantifies over CPython hash seeds and process histories; encoding it needs a model of the interpreter's dict/set implementation, not of Exo (DESIGN 6)."),
]

PENDING = {}

# round 2 additions to the level texts (DESIGN.md section 10.4)
ADDENDA = {
    "C01": " Round 2: every corpus seed also in the quick tier; the standard-library composite schedules (45 entries of exo.stdlib.stdlib / halide_scheduling_ops / scheduling, vlib/composites.py) are swept as operations, and a violating composite is decomposed by a harness-side trace of AtomicSchedulingOp calls and re-checked primitive by primitive; complete small grids of numeric arguments (vlib/tight_sched.py) for resize_dim, stage_mem windows, cut/shift/divide_loop and expand_dim.",
    "C04": " Round 2: as C01 (all seeds in quick, composite schedules with localisation to primitives, tight argument grids). Window intervals overhanging their base and empty allocations are informational, not obligations (DESIGN Corrections).",
    "C07": " Round 2: composite schedules included; a procedure that can no longer be encoded after a call counts as changed; the job of a seed ends at the first impurity.",
    "C17": " Round 2: composite schedules included.",
    "C03": " Round 2: tight families (vlib/tight.py), always complete: 216 guard programs (every comparison operator x then/else x constant x offset, compound/nested/symbolic guards), 30 window-composition programs, 43 aliasing programs (two views of one buffer through aliases of depth 0-3 as call arguments), 44 call/loop programs; plus a grammar-based generator pool.",
    "C05": " Round 2: tight family corpus/tight_replace.py: 11 callees x 34 hosts that are exact instances or miss being one by a single edit (added else-branch, shifted index, other comparison, non-zero lower bound, swapped/commuted operands, transposed/strided/reversed access, second statement on another buffer, two different div/mod index expressions).",
    "C06": " Round 2: L1 harnesses for moves inside one branch of an if observed from the other branch; L2 also requires every forwarded cursor (and a gap's / block's anchor) to be rooted in the derived procedure, and a gap to keep its side of an unchanged anchor statement.",
    "C09": " Round 2: an 80-program grid of parallel loops (vlib/tight.py par_family: write a*i+b / read c*i+d, rows through windows of windows against direct accesses, reductions, scalars, nesting, configuration reads and writes directly and in callees); whatever the backend compiles is model-checked.",
    "C10": " Round 2: every config/call seed in quick; seeds whose configuration write is only read in a later loop iteration.",
    "C11": " Round 2: API-level clauses observed on the real Procedure objects alongside the inductive step (different origin, or separated by partial_eval / transpose / add_assertion => never reported equivalent; simplify+rename => equivalent).",
    "C12": " Round 2: a complete grid of (a*i + b*j + c) op 4 expressions for every sign of a and every c around the multiples of 4 under six loop shapes (zero / non-zero, literal / symbolic lower bounds).",
    "C16": " Round 2: L1 harnesses for expand / next / prev inside an else-branch whose length differs from the then-branch; completeness of name patterns (every use of a control variable reachable through the public cursor API, including loop lower bounds, is found).",
    "C19": " Round 2: the derived procedure's safety obligations (call-site assertions such as stride preconditions, bounds, shapes) are posed to z3 as well.",
    "C02": " Round 2: every seed in quick; allocation-lifetime and floor-division index families (vlib/tight.py mem_family, idx_family).",
    "C08": " Round 2: every seed in quick; allocation-lifetime family (the last use of a buffer in every syntactic position: then/else/nested else/loop/call argument/window alias) and floor-division index family.",
}


def main():
    checks = []
    for pid, c in sorted(CHECKS.items()):
        checks.append({
            "property_id": pid,
            "quick_cmd": f"./vcheck run {pid} --tier quick",
            "thorough_cmd": f"./vcheck run {pid} --tier thorough",
            "evidence_file": f"evidence/{pid}.json",
            "replay_cmd_template": "./vcheck replay {path}",
            "engine": c["engine"],
            "level_claimed": {"category": c["category"], "text": c["text"] + ADDENDA.get(pid, ""), "design_ref": f"DESIGN.md section {c['design']}"},
            "level_note": c["note"],
            "technique": c["technique"],
        })
    na = [{"property_id": p, "reason": r} for p, r in NOT_APPLICABLE]
    for p, r in sorted(PENDING.items()):
        if p not in CHECKS:
            na.append({"property_id": p, "reason": r})
    man = {
        "version": 1,
        "setup_cmd": "./setup.sh",
        "hooks": {
            "guard": "EXO_VERIF",
            "enable": "no source hooks are needed: every check observes the real code through public entry points and harness-side wrappers installed at run time by the checks themselves (IndexRangeEnvironment.check_expr_bound(s) for C13; AtomicSchedulingOp.__call__ while a composite schedule runs, to decompose it into primitive steps); nothing in /repo is guarded. EXO_VERIF=1 is exported by ./vcheck for future use",
            "baseline_off_cmd": "cd /repo && /venv/bin/python -m pytest -ra -q -p no:cacheprovider --timeout=900 --continue-on-collection-errors",
            "source_commits": [],
            "add_only": True,
        },
        "engines": [
            {"name": "crosshair+z3", "path": "vlib/check_c13.py", "serves_properties": ["C13", "C06", "C16"], "kind_free_text": "CrossHair 0.0.110 harnesses generated per run against the real Python kernels"},
            {"name": "llsym", "path": "vlib/llsym/", "serves_properties": ["C02", "C08", "C14"], "kind_free_text": "parser + path-forking symbolic executor for clang-14 -O0 LLVM IR of the emitted C, z3 backend, native replay with sanitizers"},
            {"name": "py2smt", "path": "vlib/py2smt.py", "serves_properties": ["C11"], "kind_free_text": "Python-AST -> z3 interpreter for exo/core/proc_eqv.py"},
            {"name": "exprtv", "path": "vlib/exprtv.py", "serves_properties": ["C12", "C13"], "kind_free_text": "lock-step expression pairing + unbounded LIA queries"},
            {"name": "loopsym", "path": "vlib/loopsym.py", "serves_properties": ["C01", "C03", "C04", "C05", "C07", "C09", "C10", "C12", "C17", "C19"], "kind_free_text": "bounded symbolic interpreter of Exo LoopIR into z3 + solver-free replay interpreter"},
        ],
        "checks": checks,
        "not_applicable": na,
        "notes": "See DESIGN.md. Exit codes: 0 held / 1 violation (replayed) / 3 harness error or too many inconclusive.",
    }
    with open(os.path.join(HERE, "MANIFEST.json"), "w") as f:
        json.dump(man, f, indent=1)


if __name__ == "__main__":
    main()
