#!/usr/bin/env python3
"""Writes seeded/<id>/meta.json from the table below (what each seeded change breaks, what it needs in
order to manifest, how it was confirmed, which check reports it)."""
import json, os

HERE = os.path.dirname(os.path.dirname(os.path.abspath(__file__)))

CONFIRM = ("confirmed in a scratch worktree of /repo (tools/confirm: /tmp/confirm_demos.sh): demo.py exits 0 on the clean tree and "
           "non-zero with patch.diff applied; unedited test suite: the sub-agent's full run per patch (same 32 baseline failures) "
           "plus my own combined-batch runs recorded in seeded/SUITE_CONFIRMATION.md")

T = {
    "C01a": ("C01", "divide_with_recompute whose outer_hi is a quotient with a literal divisor different from the stride ('n / 2' with stride 1, 'n / 8' with stride 4)", "C01"),
    "C01b": ("C01", "fuse of two loops with equal upper bounds where exactly one lower bound is the literal 0", "C01"),
    "C02a": ("C02 (also C08)", "heap DRAM buffer whose last use is in the else-branch of an `if` (free() emitted before the if)", "C08 (allocation-lifetime family)"),
    "C02b": ("C02", "two distinct symbols with one print name, the second declared in a nested C block while the outer one is still used there (after inline / divide_loop with repeated names)", "C02"),
    "C03a": ("C03", "strict `>` guard with a non-empty else-branch whose access is unsafe only when both sides are equal", "C03 (tight guard family)"),
    "C03b": ("C03", "a window of a window passed to a call together with another view of the same root buffer", "C03 (tight aliasing family)"),
    "C04a": ("C04 (same site as C09a)", "window of a window with a point coordinate on a dimension whose outer window has a non-zero lower bound, reached through a call, then a bounds-checked rewrite (resize_dim)", "C04 (seed s_winwin_call + resize_dim grid)"),
    "C04b": ("C04 / C05", "replace of a loop with a non-zero lower bound by a callee whose loop starts at the literal 0", "C05 (tight replace family, host trh_lo2)"),
    "C05a": ("C05", "callee `if` without else against a block `if` with a non-empty else", "C05 (tight replace family, host trh_mask_else)"),
    "C05b": ("C05", "two different `/` or `%` index expressions in one replaced block whose printed forms differ only in operators / parentheses", "C05 (tight replace family, host trh_div_two)"),
    "C06a": ("C06", "an `if` with an else-branch, a move-based rewrite inside the then-branch, a cursor taken in the else-branch before", "C06 (L2 on seed s_if_else_blocks; L1 harness c06_move_in_body_observe_orelse)"),
    "C06b": ("C06", "a gap cursor created before rename / make_instr and used across it", "C06 (L2 root-identity oracle)"),
    "C07a": ("C07", "resize_dim (accepted or rejected) on a buffer that is windowed at a call, non-zero offset; the ORIGINAL procedure is edited", "C07"),
    "C07b": ("C07", "autolift_alloc(mode='col', keep_dims=True) across a dependent loop; the original allocation's shape list grows", "C07"),
    "C08a": ("C08", "heap buffer whose last use is in the else-branch of an `if`", "C08 (allocation-lifetime family)"),
    "C08b": ("C08", "modulo by the literal 1 in a subscript (resize_dim(..., 1, 0, fold=True) / divide_dim by 1)", "C08"),
    "C09a": ("C09", "parallel loop writing through a window of a window (point coordinate, outer offset) while another access path reads the same buffer directly", "C09 (parallel grid)"),
    "C09b": ("C09", "parallel loop whose body (or a callee) writes a configuration field that other iterations read or write", "C09 (parallel grid, configuration rows)"),
    "C10a": ("C10", "configuration write inside a loop whose only later read is in a LATER iteration under an index-dependent guard; delete_config / call_eqv", "C10 (seeds s_cfg_late_read*)"),
    "C10b": ("C10", "delete_config aimed at a call whose callee writes configuration and updates a buffer only with +=", "C10"),
    "C11a": ("C11", "the FIRST derivation step in the process history that mentions a configuration field", "C11 (inductive step: first-mention obligations; history replay)"),
    "C11b": ("C11", "add_assertion on a callee, a rewrite legal only under the assertion, then call_eqv at a site that violates it", "C11 (API-level facts) and C10 (origin check)"),
    "C12a": ("C12", "a constant offset that is not a multiple of d and lies outside [0, d), e.g. a negative constant with a non-zero lower loop bound", "C12 (tight expression grid)"),
    "C12b": ("C12 (also C13)", "a variable with a negative coefficient under / or % whose constant is a multiple of the divisor, or a loop lower bound >= the constant", "C12 (tight grid + loop shapes seq(0,4), seq(5,9)) and C13"),
    "C13a": ("C13", "% applied to a range narrower than the modulus that straddles a multiple of it", "C13"),
    "C13b": ("C13 (manifests as C02)", "floor division whose numerator goes negative through a negative literal under + or * (simplify's normal form `(-1 + i) / 2`)", "C02 (floor-division index family)"),
    "C14a": ("C14", "mm256_storeu_pd with a non-unit-stride destination window", "C14"),
    "C14b": ("C14 (manifests as C02)", "instruction operand that is a window of a window alias dropping a leading dimension of a >= 3-D buffer with constant strides, non-zero offset", "C02 (seed s_winwin_call_loop after expand_dim)"),
    "C16a": ("C16", "expression pattern whose match sits in a loop's lower bound", "C16 (name-pattern completeness oracle)"),
    "C16b": ("C16", "expand on a block in an else-branch whose length differs from the then-branch", "C16 (L1 harness c16_expand_orelse)"),
    "C17a": ("C17", "a variable literally named <base>_<k> declared before the (k+1)-th distinct symbol called <base> becomes visible", "C17"),
    "C17b": ("C17", "index multiplication with the constant on the left and a division or modulo as right operand (4 * (i / 4))", "C17"),
    "C19a": ("C19", "transpose of a buffer whose row slice is passed to a callee asserting unit stride", "C19 (derived-procedure obligations, seed s_rows_unit)"),
    "C19b": ("C19", "partial_eval of an argument whose name is shadowed by a loop iterator", "C19 (seed s_shadow_arg)"),
}

for sid, (prop, needs, caught) in T.items():
    d = os.path.join(HERE, "seeded", sid)
    if not os.path.isdir(d):
        continue
    meta = {
        "id": sid,
        "breaks_property": prop,
        "needs_to_manifest": needs,
        "author": "independent sub-agent given only the property text and a scratch worktree",
        "what_i_ran": CONFIRM + f"; tools/try_seeded.sh seeded/{sid}/patch.diff <check> (quick tier against a scratch worktree with the patch applied)",
        "reported_by": caught,
    }
    with open(os.path.join(d, "meta.json"), "w") as f:
        json.dump(meta, f, indent=1)
print("wrote", len(T))
