#!/bin/sh
# usage: tools/try_seeded.sh <patch.diff> <Cxx> [<Cyy> ...]   -- applies the patch to /repo, runs the quick checks, undoes it
set -u
PATCH="$1"; shift
cd /repo || exit 3
if ! git diff --quiet; then echo "/repo has uncommitted changes"; exit 3; fi
git apply "$PATCH" || { echo "patch does not apply"; exit 3; }
cd /verif
rc_all=0
for P in "$@"; do
  ./vcheck run "$P" --tier quick > /tmp/seeded_$P.log 2>&1
  rc=$?
  echo "== $P exit=$rc"
  grep -v "^KNOWN-FINDING" /tmp/seeded_$P.log | grep "VIOLATION\|HARNESS\|^   \|quick:" | head -12
  [ $rc -ne 0 ] && rc_all=1
done
git -C /repo checkout -- . 
exit $rc_all
