#!/bin/sh
# usage: tools/try_seeded.sh <patch.diff> <Cxx> [<Cyy> ...]
# Runs the quick checks against a scratch worktree of /repo with the patch applied (VERIF_REPO), so /repo itself is
# never modified and several seeded changes can be evaluated at the same time.  Evidence goes to a scratch directory.
set -u
PATCH="$1"; shift
TAG=$(basename "$(dirname "$PATCH")")
WT=/tmp/seedwt_$TAG
rm -rf "$WT"; git -C /repo worktree prune
git -C /repo worktree add -q --detach "$WT" HEAD || exit 3
( cd "$WT" && git apply "$PATCH" ) || { echo "patch does not apply"; git -C /repo worktree remove --force "$WT"; exit 3; }
cd /verif
rc_all=0
mkdir -p /tmp/seed_evid_$TAG
for P in "$@"; do
  VERIF_REPO=$WT VERIF_EVID_DIR=/tmp/seed_evid_$TAG ./vcheck run "$P" --tier "${TIER:-quick}" ${EXTRA:-} > /tmp/seeded_${TAG}_$P.log 2>&1
  rc=$?
  echo "== $TAG $P exit=$rc"
  grep -v "^KNOWN-FINDING" /tmp/seeded_${TAG}_$P.log | grep "VIOLATION\|HARNESS\|^   \|quick:\|thorough:" | head -${LINES_MAX:-8} | cut -c1-300
  [ $rc -ne 0 ] && rc_all=1
done
git -C /repo worktree remove --force "$WT"
rm -rf /tmp/seed_evid_$TAG
exit $rc_all
