"""CrossHair harnesses on the REAL exo/core/internal_cursors.py (generic over the
node type, so it runs unmodified on a mock tree).  One condition per function.

Tree: root.body = [L0 .. L(n-1)]; node at index `np` additionally has a nested
body of m leaves and an orelse of one leaf.  Labels identify statements.

C06 (forwarding after one elementary edit): the forwarded cursor either raises
InvalidCursorError or denotes the statement(s) with the same labels.
C16 (navigation laws): next/prev, parent/child, before/after/anchor, block slicing
and expand are mutual inverses where defined and raise InvalidCursorError at the
edges.
"""
from __future__ import annotations

import dataclasses
from dataclasses import dataclass, field
from typing import List, Optional

from exo.core.internal_cursors import Block, Cursor, Gap, GapType, InvalidCursorError, Node
from exo.core.prelude import SrcInfo

_SI = SrcInfo("mock", 0)


@dataclass(frozen=True)
class M:
    label: int
    body: list = field(default_factory=list)
    orelse: list = field(default_factory=list)
    srcinfo: SrcInfo = _SI

    def update(self, **kw):
        return dataclasses.replace(self, **kw)


def tree(n: int, np: int, m: int) -> M:
    kids = []
    for k in range(n):
        if k == np:
            kids.append(M(k, [M(100 + j) for j in range(m)], [M(200)]))
        else:
            kids.append(M(k))
    return M(-1, kids)


def labels_under(node) -> List[int]:
    out = [node.label]
    for c in node.body:
        out += labels_under(c)
    for c in node.orelse:
        out += labels_under(c)
    return out


def top(root, i) -> Node:
    return Cursor.create(root)._child_node("body", i)


def nested(root, np, j) -> Node:
    return top(root, np)._child_node("body", j)


def fwd_label_ok(fwd, cur: Node, want_label: int, allow_wrapped=False) -> bool:
    try:
        f = fwd(cur)
    except InvalidCursorError:
        return True
    node = f._node
    if allow_wrapped:
        return want_label in labels_under(node)
    return node.label == want_label


# ---------------------------------------------------------------------------
# C06: insert


def c06_insert_top(n: int, np: int, m: int, g: int, k: int, i: int) -> bool:
    """
    pre: 1 <= n <= 5 and 0 <= np < n and 0 <= m <= 2
    pre: 0 <= g <= n and 1 <= k <= 3 and 0 <= i < n
    post: _
    """
    root = tree(n, np, m)
    gap = top(root, g).before() if g < n else top(root, n - 1).after()
    new_root, fwd = gap._insert([M(900 + x) for x in range(k)])
    return fwd_label_ok(fwd, top(root, i), i)


def c06_insert_nested(n: int, np: int, m: int, g: int, k: int, j: int, i: int) -> bool:
    """
    pre: 1 <= n <= 5 and 0 <= np < n and 1 <= m <= 2
    pre: 0 <= g <= m and 1 <= k <= 2 and 0 <= j < m and 0 <= i < n
    post: _
    """
    root = tree(n, np, m)
    gap = nested(root, np, g).before() if g < m else nested(root, np, m - 1).after()
    new_root, fwd = gap._insert([M(900 + x) for x in range(k)])
    return fwd_label_ok(fwd, nested(root, np, j), 100 + j) and fwd_label_ok(fwd, top(root, i), i)


def c06_insert_twin(n: int, np: int, m: int, g: int, k: int, i: int) -> bool:
    """
    pre: 1 <= n <= 5 and 0 <= np < n and 0 <= m <= 2
    pre: 0 <= g <= n and 1 <= k <= 3 and 0 <= i < n
    post: not _
    """
    root = tree(n, np, m)
    gap = top(root, g).before() if g < n else top(root, n - 1).after()
    new_root, fwd = gap._insert([M(900 + x) for x in range(k)])
    return fwd_label_ok(fwd, top(root, i), i)


# C06: delete / replace


def c06_delete_block(n: int, np: int, m: int, a: int, b: int, i: int) -> bool:
    """
    pre: 2 <= n <= 5 and 0 <= np < n and 0 <= m <= 2
    pre: 0 <= a < b <= n and b - a < n and 0 <= i < n
    post: _
    """
    root = tree(n, np, m)
    blk = Cursor.create(root)._child_block("body")[a:b]
    new_root, fwd = blk._replace([])
    cur = top(root, i)
    try:
        f = fwd(cur)
    except InvalidCursorError:
        return True
    # a deleted statement must not forward anywhere
    if a <= i < b:
        return False
    return f._node.label == i


def _replace_block(n: int, a: int, b: int, k: int, i: int) -> bool:
    root = tree(n, 0, 0)
    blk = Cursor.create(root)._child_block("body")[a:b]
    new_root, fwd = blk._replace([M(900 + x) for x in range(k)])
    cur = top(root, i)
    try:
        f = fwd(cur)
    except InvalidCursorError:
        return True
    if a <= i < b:
        return False
    return f._node.label == i


def c06_replace_block_k1(n: int, a: int, b: int, i: int) -> bool:
    """
    pre: 1 <= n <= 5 and 0 <= a < b <= n and 0 <= i < n
    post: _
    """
    return _replace_block(n, a, b, 1, i)


def c06_replace_block_k3(n: int, a: int, b: int, i: int) -> bool:
    """
    pre: 1 <= n <= 5 and 0 <= a < b <= n and 0 <= i < n
    post: _
    """
    return _replace_block(n, a, b, 3, i)


def _replace_fwd_block(n: int, a: int, b: int, k: int, c: int, d: int) -> bool:
    root = tree(n, 0, 0)
    blk = Cursor.create(root)._child_block("body")[a:b]
    new_root, fwd = blk._replace([M(900 + x) for x in range(k)])
    obs = Cursor.create(root)._child_block("body")[c:d]
    try:
        f = fwd(obs)
    except InvalidCursorError:
        return True
    got = [x._node.label for x in f]
    new = [900 + x for x in range(k)]
    if c <= a and b <= d:
        # a block that covers the replaced range forwards to the survivors around the replacement
        return got == list(range(c, a)) + new + list(range(b, d))
    if d <= a or b <= c:
        return got == list(range(c, d))
    return False  # partial overlap / strict sub-block of a replaced block must be invalidated


def c06_replace_fwd_block_k0(n: int, a: int, b: int, c: int, d: int) -> bool:
    """
    pre: 1 <= n <= 5 and 0 <= a < b <= n and 0 <= c < d <= n
    post: _
    """
    return _replace_fwd_block(n, a, b, 0, c, d)


def c06_replace_fwd_block_k2(n: int, a: int, b: int, c: int, d: int) -> bool:
    """
    pre: 1 <= n <= 5 and 0 <= a < b <= n and 0 <= c < d <= n
    post: _
    """
    return _replace_fwd_block(n, a, b, 2, c, d)


# C06: wrap


def c06_wrap(n: int, np: int, m: int, a: int, b: int, i: int) -> bool:
    """
    pre: 1 <= n <= 5 and 0 <= np < n and 0 <= m <= 2
    pre: 0 <= a < b <= n and 0 <= i < n
    post: _
    """
    root = tree(n, np, m)
    blk = Cursor.create(root)._child_block("body")[a:b]
    new_root, fwd = blk._wrap(lambda body: M(500, body), "body")
    cur = top(root, i)
    try:
        f = fwd(cur)
    except InvalidCursorError:
        return True
    return f._node.label == i


def c06_wrap_nested_child(n: int, np: int, m: int, a: int, b: int, j: int) -> bool:
    """
    pre: 1 <= n <= 5 and 0 <= np < n and 1 <= m <= 2
    pre: 0 <= a < b <= n and 0 <= j < m
    post: _
    """
    root = tree(n, np, m)
    blk = Cursor.create(root)._child_block("body")[a:b]
    new_root, fwd = blk._wrap(lambda body: M(500, body), "body")
    cur = nested(root, np, j)
    try:
        f = fwd(cur)
    except InvalidCursorError:
        return True
    return f._node.label == 100 + j


def c06_wrap_fwd_block(n: int, a: int, b: int, c: int, d: int) -> bool:
    """
    pre: 1 <= n <= 5 and 0 <= a < b <= n and 0 <= c < d <= n
    post: _
    """
    root = tree(n, 0, 0)
    blk = Cursor.create(root)._child_block("body")[a:b]
    new_root, fwd = blk._wrap(lambda body: M(500, body), "body")
    obs = Cursor.create(root)._child_block("body")[c:d]
    try:
        f = fwd(obs)
    except InvalidCursorError:
        return True
    got = []
    for x in f:
        nd = x._node
        got += [ch.label for ch in nd.body] if nd.label == 500 else [nd.label]
    return got == list(range(c, d))


# C06: move


def c06_move_same_block(n: int, a: int, b: int, g: int, i: int) -> bool:
    """
    pre: 2 <= n <= 5 and 0 <= a < b <= n and 0 <= g <= n and 0 <= i < n
    pre: (g < a or g >= b) and not (g == n and b == n)
    post: _
    """
    root = tree(n, 0, 0)
    blk = Cursor.create(root)._child_block("body")[a:b]
    gap = top(root, g).before() if g < n else top(root, n - 1).after()
    new_root, fwd = blk._move(gap)
    cur = top(root, i)
    try:
        f = fwd(cur)
    except InvalidCursorError:
        return True
    return f._node.label == i


def c06_move_into_nested(n: int, np: int, m: int, a: int, g: int, i: int) -> bool:
    """
    pre: 2 <= n <= 5 and 0 <= np < n and 1 <= m <= 2
    pre: 0 <= a < n and a != np and 0 <= g <= m and 0 <= i < n
    post: _
    """
    root = tree(n, np, m)
    blk = Cursor.create(root)._child_block("body")[a : a + 1]
    gap = nested(root, np, g).before() if g < m else nested(root, np, m - 1).after()
    new_root, fwd = blk._move(gap)
    cur = top(root, i)
    try:
        f = fwd(cur)
    except InvalidCursorError:
        return True
    return f._node.label == i


def c06_move_nested_child(n: int, np: int, m: int, a: int, g: int, j: int) -> bool:
    """
    pre: 2 <= n <= 5 and 0 <= np < n and 1 <= m <= 2
    pre: 0 <= a < n and a != np and 0 <= g <= n and (g < a or g >= a + 1) and not (g == n and a == n - 1) and 0 <= j < m
    post: _
    """
    root = tree(n, np, m)
    blk = Cursor.create(root)._child_block("body")[a : a + 1]
    gap = top(root, g).before() if g < n else top(root, n - 1).after()
    new_root, fwd = blk._move(gap)
    cur = nested(root, np, j)
    try:
        f = fwd(cur)
    except InvalidCursorError:
        return True
    return f._node.label == 100 + j


def tree2(m: int, e: int) -> M:
    """root with one branching node (label 0) whose body has m and whose orelse has e statements, plus a tail"""
    return M(-1, [M(0, [M(100 + j) for j in range(m)], [M(200 + j) for j in range(e)]), M(1)])


def c06_move_in_body_observe_orelse(m: int, e: int, a: int, g: int, j: int) -> bool:
    """
    pre: 2 <= m <= 4 and 1 <= e <= 4 and 0 <= a < m and 0 <= g <= m and (g < a or g > a + 1) and 0 <= j < e
    post: _
    """
    # a statement is moved inside the body of node 0; cursors into the orelse of the same node are untouched
    root = tree2(m, e)
    n0 = Cursor.create(root)._child_node("body", 0)
    blk = n0._child_block("body")[a : a + 1]
    gap = n0._child_node("body", g).before() if g < m else n0._child_node("body", m - 1).after()
    new_root, fwd = blk._move(gap)
    cur = n0._child_node("orelse", j)
    try:
        f = fwd(cur)
    except InvalidCursorError:
        return True
    return f._node.label == 200 + j and f._path == cur._path


def c06_move_in_orelse_observe_body(m: int, e: int, a: int, g: int, j: int) -> bool:
    """
    pre: 1 <= m <= 4 and 2 <= e <= 4 and 0 <= a < e and 0 <= g <= e and (g < a or g > a + 1) and 0 <= j < m
    post: _
    """
    root = tree2(m, e)
    n0 = Cursor.create(root)._child_node("body", 0)
    blk = n0._child_block("orelse")[a : a + 1]
    gap = n0._child_node("orelse", g).before() if g < e else n0._child_node("orelse", e - 1).after()
    new_root, fwd = blk._move(gap)
    cur = n0._child_node("body", j)
    try:
        f = fwd(cur)
    except InvalidCursorError:
        return True
    return f._node.label == 100 + j and f._path == cur._path


# ---------------------------------------------------------------------------
# C16: navigation laws on the internal cursors


def c16_expand_orelse(m: int, e: int, a: int, b: int, lo: int, hi: int) -> bool:
    """
    pre: 1 <= m <= 4 and 1 <= e <= 4 and 0 <= a < b <= e and 0 <= lo <= 5 and 0 <= hi <= 5
    post: _
    """
    # a block inside an else-branch expands within the else-branch, whatever the length of the then-branch
    root = tree2(m, e)
    n0 = Cursor.create(root)._child_node("body", 0)
    blk = n0._child_block("orelse")[a:b]
    ex = blk.expand(lo, hi)
    got = [x._node.label for x in ex]
    return got == [200 + k for k in range(max(0, a - lo), min(e, b + hi))]


def c16_expand_body_with_orelse(m: int, e: int, a: int, b: int, lo: int, hi: int) -> bool:
    """
    pre: 1 <= m <= 4 and 1 <= e <= 4 and 0 <= a < b <= m and 0 <= lo <= 5 and 0 <= hi <= 5
    post: _
    """
    root = tree2(m, e)
    n0 = Cursor.create(root)._child_node("body", 0)
    blk = n0._child_block("body")[a:b]
    ex = blk.expand(lo, hi)
    got = [x._node.label for x in ex]
    return got == [100 + k for k in range(max(0, a - lo), min(m, b + hi))]


def c16_next_prev_orelse(m: int, e: int, i: int, k: int) -> bool:
    """
    pre: 1 <= m <= 4 and 1 <= e <= 4 and 0 <= i < e and -5 <= k <= 5
    post: _
    """
    root = tree2(m, e)
    n0 = Cursor.create(root)._child_node("body", 0)
    c = n0._child_node("orelse", i)
    try:
        d = c.next(k) if k >= 0 else c.prev(-k)
    except InvalidCursorError:
        return not (0 <= i + k < e)
    return 0 <= i + k < e and d._node.label == 200 + i + k


def c16_next_prev(n: int, i: int, k: int) -> bool:
    """
    pre: 1 <= n <= 5 and 0 <= i < n and -6 <= k <= 6
    post: _
    """
    root = tree(n, 0, 0)
    c = top(root, i)
    try:
        d = c.next(k)
    except InvalidCursorError:
        return not (0 <= i + k < n)
    if not (0 <= i + k < n):
        return False
    return d._node.label == i + k and d.prev(k)._path == c._path


def c16_parent_child(n: int, np: int, m: int, j: int) -> bool:
    """
    pre: 1 <= n <= 5 and 0 <= np < n and 1 <= m <= 3 and -2 <= j <= 4
    post: _
    """
    root = tree(n, np, m)
    p = top(root, np)
    try:
        c = p._child_node("body", j)
    except InvalidCursorError:
        return not (0 <= j < m)
    if not (0 <= j < m):
        return False
    return c.parent()._path == p._path and c._node.label == 100 + j


def c16_gaps(n: int, i: int) -> bool:
    """
    pre: 1 <= n <= 5 and 0 <= i < n
    post: _
    """
    root = tree(n, 0, 0)
    c = top(root, i)
    b, a = c.before(), c.after()
    ok = b.anchor()._path == c._path and a.anchor()._path == c._path
    ok = ok and b.type() == GapType.Before and a.type() == GapType.After
    # the position after statement i is the position before statement i+1
    ok = ok and a._insertion_index() == b._insertion_index() + 1
    if i + 1 < n:
        ok = ok and c.next().before()._insertion_index() == a._insertion_index()
    return ok


def c16_block_slice(n: int, a: int, b: int, c: int, d: int) -> bool:
    """
    pre: 1 <= n <= 5 and 0 <= a <= b <= n and 0 <= c <= d <= b - a
    post: _
    """
    root = tree(n, 0, 0)
    full = Cursor.create(root)._child_block("body")
    blk = full[a:b]
    sub = blk[c:d]
    got = [x._node.label for x in sub]
    return got == list(range(a + c, a + d)) and len(blk) == b - a


def c16_block_index(n: int, a: int, b: int, i: int) -> bool:
    """
    pre: 1 <= n <= 5 and 0 <= a < b <= n and -7 <= i <= 7
    post: _
    """
    root = tree(n, 0, 0)
    blk = Cursor.create(root)._child_block("body")[a:b]
    try:
        x = blk[i]
    except (InvalidCursorError, IndexError):
        return not (-(b - a) <= i < b - a)
    if not (-(b - a) <= i < b - a):
        return False
    want = a + i if i >= 0 else b + i
    return x._node.label == want


def c16_expand(n: int, a: int, b: int, lo: int, hi: int) -> bool:
    """
    pre: 1 <= n <= 5 and 0 <= a < b <= n and 0 <= lo <= 6 and 0 <= hi <= 6
    post: _
    """
    root = tree(n, 0, 0)
    blk = Cursor.create(root)._child_block("body")[a:b]
    e = blk.expand(lo, hi)
    got = [x._node.label for x in e]
    return got == list(range(max(0, a - lo), min(n, b + hi)))


def c16_next_prev_twin(n: int, i: int, k: int) -> bool:
    """
    pre: 1 <= n <= 5 and 0 <= i < n and -6 <= k <= 6
    post: not _
    """
    root = tree(n, 0, 0)
    c = top(root, i)
    try:
        d = c.next(k)
    except InvalidCursorError:
        return not (0 <= i + k < n)
    return d._node.label == i + k


# ---------------------------------------------------------------------------
# C16: navigation laws on the PUBLIC cursor API, on a real corpus procedure

import corpus.seeds as _S
import exo.API_cursors as _PC

_P = _S.by_name("s_reuse")  # 6 top-level statements, loops with bodies
_NTOP = len(_P.body())


def c16_pub_next_prev(i: int, k: int) -> bool:
    """
    pre: 0 <= i < 6 and -8 <= k <= 8
    post: _
    """
    c = _P.body()[i]
    d = c.next(k)
    if not (0 <= i + k < _NTOP):
        return isinstance(d, _PC.InvalidCursor)
    if isinstance(d, _PC.InvalidCursor):
        return False
    back = d.prev(k)
    return d._impl._path == _P.body()[i + k]._impl._path and back._impl._path == c._impl._path


def c16_pub_slice_expand(a: int, b: int, lo: int, hi: int) -> bool:
    """
    pre: 0 <= a < b <= 6 and 0 <= lo <= 8 and 0 <= hi <= 8
    post: _
    """
    blk = _P.body()[a:b]
    e = blk.expand(lo, hi)
    want_lo, want_hi = max(0, a - lo), min(_NTOP, b + hi)
    ok = len(e) == want_hi - want_lo and len(blk) == b - a
    ok = ok and e[0]._impl._path == _P.body()[want_lo]._impl._path
    ok = ok and e[len(e) - 1]._impl._path == _P.body()[want_hi - 1]._impl._path
    # before/after of a block are the gaps around it; their anchors are its end statements
    ok = ok and blk.before().anchor()._impl._path == blk[0]._impl._path
    ok = ok and blk.after().anchor()._impl._path == blk[len(blk) - 1]._impl._path
    return ok


def c16_pub_parent_child(i: int, j: int) -> bool:
    """
    pre: 0 <= i < 6 and 0 <= j <= 2
    post: _
    """
    c = _P.body()[i]
    if not isinstance(c, _PC.ForCursor):
        return True
    body = c.body()
    if j >= len(body):
        return True
    ch = body[j]
    return ch.parent()._impl._path == c._impl._path and ch.before().anchor()._impl._path == ch._impl._path
