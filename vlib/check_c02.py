"""C02 (generated C computes what the procedure means) and C08 (generated C is free
of UB and leaks): llsym on the LLVM IR of the emitted C vs loopsym on the LoopIR."""
from __future__ import annotations

import multiprocessing as mp
import os
import random
import time
import traceback
from collections import Counter
from fractions import Fraction

from . import common
from . import loopsym as L
from . import sched_enum as SE
from .common import Reporter, ncpu, repo_file_hashes, seed_from_env, write_evidence
from .loopsym import Bounds, ConcExec, ConcViolation, TooBig, Unsupported

LAYOUT_OPS = ["set_memory", "set_precision", "set_window", "stage_mem", "divide_dim", "rearrange_dim", "expand_dim", "bind_expr", "inline_window", "extract_subproc", "divide_loop", "cut_loop", "shift_loop",
              "mult_loops", "resize_dim", "unroll_buffer", "lift_alloc", "sink_alloc", "delete_buffer", "reuse_buffer", "inline", "parallelize_loop", "mult_dim", "unroll_loop", "add_loop", "specialize", "fission", "simplify"]


def reference_values(p_ir, model):
    """solver-free reference run on the model's inputs -> {pos: {addr: Fraction}}, cfg dict; or None if the LoopIR itself is unsafe"""
    args = []
    for a, mv in zip(p_ir.args, model["args"]):
        if mv["kind"] == "ctrl":
            args.append(mv["value"])
        else:
            dims, off, strides = mv["dims"], mv["offset"], mv["strides"]
            data = {}
            import itertools

            for idx in itertools.product(*[range(d) for d in dims]):
                addr = off + sum(i * s for i, s in zip(idx, strides))
                data[idx] = Fraction(mv["data"][addr]) if addr < len(mv["data"]) else Fraction(0)
            args.append({"shape": dims, "data": data, "strides": strides})
    cfg = {}
    for k, v in model["cfg"].items():
        c, f = k.split(".")
        cfg[(c, f)] = (v == "True") if v in ("True", "False") else Fraction(v)
        if isinstance(cfg[(c, f)], Fraction) and cfg[(c, f)].denominator == 1:
            cfg[(c, f)] = int(cfg[(c, f)])
    ex = ConcExec(cfg=cfg, strict=True)
    stores = ex.run(p_ir, args)
    out = {}
    for pos, (st, mv) in enumerate(zip(stores, model["args"])):
        if st is None:
            continue
        dims, off, strides = mv["dims"], mv["offset"], mv["strides"]
        vals = {}
        for idx, v in st.data.items():
            addr = off + sum(i * s for i, s in zip(idx, strides))
            vals[addr] = v
        out[pos] = vals
    return out, ex.cfg


def replay(p, res_entry, kind, tag):
    """native replay; returns (reproduced: bool|None, description)"""
    from exo.API import compile_procs_to_strings
    from .llsym.harness import build_driver, uses_isa
    from .llsym.replay import native_run

    p_ir = p._loopir_proc
    c_text, h_text = compile_procs_to_strings([p], "t.h")
    drv, params, infos, cfields = build_driver(p_ir, h_text)
    model = res_entry["model"]
    nat = native_run(c_text, h_text, drv, params, infos, cfields, model, tag, uses_isa(c_text))
    if nat["status"] != "ran":
        return None, f"native replay {nat['status']}: {nat.get('stderr', '')[:200]}"
    if kind == "C08":
        if nat["sanitizer"]:
            return True, nat["sanitizer"]
        return False, f"no sanitizer report (exit code {nat['rc']})"
    try:
        ref, ref_cfg = reference_values(p_ir, model)
    except ConcViolation as cv:
        return None, f"reference run is itself unsafe on this input: {cv}"
    except (Unsupported, TooBig, ZeroDivisionError) as ex:
        return None, f"reference run unsupported: {ex}"
    if nat["sanitizer"]:
        return True, f"native run aborted: {nat['sanitizer']}"
    for pos, vals in ref.items():
        nb = nat["bufs"].get(pos, {})
        init = model["args"][pos]["data"]
        for addr in range(len(init)):
            want = vals.get(addr)
            if want is None and addr in vals:
                continue  # reference leaves the cell undefined
            if want is None:
                want = Fraction(init[addr])
            got = nb.get(addr)
            if got is None:
                continue
            if abs(float(want) - float(got)) > 1e-3 * (1 + abs(float(want))):
                return True, f"argument {p_ir.args[pos].name} address {addr}: C gives {got}, the procedure means {float(want)}"
    for (c, f), want in ref_cfg.items():
        got = nat["cfg"].get(f"{c}.{f}")
        if got is None or want is None:
            continue
        if abs(float(want) - float(got)) > 1e-3 * (1 + abs(float(want))):
            return True, f"config {c}.{f}: C gives {got}, the procedure means {want}"
    return False, "native run agrees with the reference"


def programs_for(name, p, env, rng, tier):
    out = [(f"{name}:as_written", p, None)]
    ops = SE.all_ops()
    from .sweep import apply_op

    per_op = 1 if tier == "quick" else 6
    for opname in LAYOUT_OPS:
        if opname not in ops:
            continue
        try:
            cands = SE.candidates(p, opname, ops[opname], env, rng, per_op * 3)
        except Exception:
            continue
        n = 0
        for args in cands:
            q, ex, _ = apply_op(ops[opname], p, list(args))
            if q is not None:
                out.append((f"{name}:{opname}{SE.describe_arg(list(args))}", q, (opname, list(args))))
                n += 1
                if n >= per_op:
                    break
    return out


def _work(job):
    devnull = os.open(os.devnull, os.O_WRONLY)
    saved = os.dup(1)
    os.dup2(devnull, 1)
    try:
        return _work_inner(job)
    except BaseException as ex:  # noqa
        return {"results": [], "errors": [f"worker crashed: {type(ex).__name__}: {ex}", traceback.format_exc()[-1500:]]}
    finally:
        os.dup2(saved, 1)
        os.close(devnull)
        os.close(saved)


def _work_inner(job):
    import corpus.seeds as S
    from .sweep import load_env, enc_arg
    from .llsym.harness import check_proc

    env = load_env()
    bounds = Bounds(**job["bounds"])
    out = {"results": [], "errors": []}
    todo = [(name, S.by_name(name)) for name in job["seeds"]]
    gen_names = set()
    simp_names = set()
    if job.get("gen"):
        from .gen import generate
        from .mutate_src import build_module

        gseed, gcount = job["gen"]
        mod = build_module(f"c02gen{gseed}", generate(gseed, gcount))
        todo += [(nm, pr) for nm, pr in mod.PROCS.items()]
        gen_names = set(mod.PROCS)
        out["gen_rejected"] = len(mod.REJ)
    if job.get("tight"):
        from .tight import mem_family
        from .mutate_src import build_module

        from .tight import idx_family

        lo, hi = job["tight"]
        fam = (mem_family() + idx_family())[lo:hi]
        mod = build_module(f"c02tight{lo}", fam)
        todo += [(nm, pr) for nm, pr in mod.PROCS.items()]
        gen_names |= set(mod.PROCS)
        simp_names = {nm for nm in mod.PROCS if nm.startswith("ti")}
        out["tight_rejected"] = dict(mod.REJ)
    for name, p in todo:
        if p.is_instr():
            continue
        rng = random.Random(f"c02-{job['rngseed']}-{name}")
        plist = [(f"{name}:generated", p, None)] if name in gen_names else programs_for(name, p, env, rng, job["tier"])
        if name in simp_names:
            # index-expression family: also in simplify's normal form (constants first: `(-1 + i) / 2`)
            try:
                from exo.stdlib.scheduling import simplify as _simp

                plist.append((f"{name}:generated+simplify", _simp(p), None))
            except BaseException:  # noqa
                pass
        for k, (pname, q, how) in enumerate(plist):
            t0 = time.time()
            tag = f"{os.getpid()}_{name}_{k}"
            try:
                r = check_proc(q, bounds, tag)
            except Exception as ex:
                out["results"].append({"name": pname, "status": "harness_error", "why": f"{type(ex).__name__}: {ex}", "tb": traceback.format_exc()[-1000:]})
                continue
            rec = {"name": pname, "seed": name, "status": r.status, "why": r.why, "valuations": r.valuations, "paths": r.paths, "obligations": r.obligations, "queries": r.queries, "unknown": r.unknown, "solver_s": round(r.solver_s, 3),
                   "intrinsics": r.intrinsics, "ir_lines": r.ir_lines, "wall_s": round(time.time() - t0, 2), "src": str(q), "c02": [], "c08": [], "unreproduced": []}
            if how is not None:
                try:
                    rec["how"] = {"op": how[0], "enc": [enc_arg(a) for a in how[1]]}
                except Exception:
                    pass
            for kind, lst in (("C02", r.c02), ("C08", r.c08)):
                for v in lst[:2]:
                    ok, desc = replay(q, v, kind, tag + "_r")
                    v2 = {k2: v[k2] for k2 in v if k2 != "model"}
                    v2["replay"] = desc
                    v2["inputs"] = v["model"]
                    if ok:
                        rec[kind.lower()].append(v2)
                    else:
                        v2["reproduced"] = ok
                        rec["unreproduced"].append(dict(v2, prop=kind))
            if r.status == "compile_failure":
                rec["c_excerpt"] = r.why[-600:]
            out["results"].append(rec)
    return out


def run(prop, tier):
    from .check_sweep import seed_names

    t0 = time.time()
    vseed = seed_from_env()
    names = seed_names()
    if tier == "quick":
        bounds = dict(size_max=3)
        if not os.environ.get("VERIF_ALLSEEDS"):
            pass  # quick also covers every seed (detection must not depend on the rotation)
    else:
        bounds = dict(size_max=4, idx_max=5, stmt_budget=2500)
    jobs = [dict(seeds=names[b : b + 2], bounds=bounds, rngseed=vseed, tier=tier) for b in range(0, len(names), 2)]
    n_gen_jobs, per_job = (8, 10) if tier == "quick" else (40, 25)
    base = (vseed % 5) * 100 if tier == "quick" else 0
    jobs += [dict(seeds=[], bounds=bounds, rngseed=vseed, tier=tier, gen=(base + g, per_job)) for g in range(n_gen_jobs)]
    from .tight import mem_family

    from .tight import idx_family

    n_t = len(mem_family()) + len(idx_family())
    jobs += [dict(seeds=[], bounds=bounds, rngseed=vseed, tier=tier, tight=(lo, min(n_t, lo + 4))) for lo in range(0, n_t, 4)]
    with mp.get_context("fork").Pool(ncpu(), maxtasksperchild=2) as pool:
        outs = pool.map(_work, jobs, chunksize=1)
    rep = Reporter(prop)
    stats = Counter()
    samples = []
    errors = []
    intr = set()
    solver_s = 0.0
    for o in outs:
        errors += o.get("errors", [])
        for r in o["results"]:
            stats["programs"] += 1
            stats[r["status"]] += 1
            if r["status"] == "harness_error":
                errors.append(f"{r['name']}: {r.get('why')}")
                continue
            stats["paths"] += r.get("paths", 0)
            stats["valuations"] += r.get("valuations", 0)
            stats["obligations"] += r.get("obligations", 0)
            stats["queries"] += r.get("queries", 0)
            stats["unknown"] += r.get("unknown", 0)
            solver_s += r.get("solver_s", 0)
            intr |= set(r.get("intrinsics", []))
            for u in r.get("unreproduced", []):
                if u.get("prop") == prop:
                    stats["unreproduced"] += 1
                    errors.append(f"{r['name']}: {prop} candidate not reproduced natively: {u.get('replay')}")
            if prop == "C02" and r["status"] == "compile_failure":
                rec = {"property": "C02", "program": r["name"], "seed": r.get("seed"), "how": r.get("how"), "src": r["src"], "kind": "c_compile_error", "detail": r.get("c_excerpt"),
                       "summary": f"emitted C of {r['name']} is rejected by clang: {str(r.get('c_excerpt'))[:200]}", "dedup": f"{r['name']}|cc"}
                rep.report(rec)
            for v in r.get(prop.lower(), []):
                rec = {"property": prop, "program": r["name"], "seed": r.get("seed"), "how": r.get("how"), "src": r["src"], "kind": v.get("kind", "value"), "detail": v, "summary": f"{r['name']}: {v.get('replay')}", "dedup": f"{r['name']}|{v.get('kind', 'value')}"}
                rep.report(rec)
            if len(samples) < 5 and r["status"] == "ok" and r.get("paths", 0) > 1:
                samples.append({"program": r["name"], "valuations": r["valuations"], "paths": r["paths"], "obligations": r["obligations"], "queries": r["queries"], "ir_lines": r["ir_lines"], "source": r["src"][:300]})
    code = rep.finish()
    ok = stats["ok"]
    if prop == "C02":
        coverage = {"programs": ok, "disagreements_checked": len(rep.violations) + sum(v[1] for v in rep.known.values()), "samples": samples or [{"note": "none"}],
                    "evaluations": stats["programs"], "distinct_nontrivial": ok, "rule": "one case = one procedure (corpus seed as written or after one accepted layout/memory/precision/window/loop schedule) compiled by the real backend, lowered by clang-14 and executed by llsym on every path for every size valuation within bounds"}
        level = "translation_validation"
    else:
        coverage = {"states": max(1, stats["paths"]), "transitions": max(1, stats["obligations"]), "traces_validated_against_impl": len(rep.violations) + sum(v[1] for v in rep.known.values()), "samples": samples or [{"note": "none"}],
                    "evaluations": stats["programs"], "distinct_nontrivial": ok, "rule": "states = explored (size valuation, path) pairs of the emitted C's LLVM IR; transitions = UB/leak obligations posed to z3"}
        level = "model_checking"
    coverage.update({"status_counts": dict(stats), "solver_s": round(solver_s, 2), "intrinsics_modelled_and_used": sorted(intr), "errors": errors[:12], "bounds": bounds,
                     "functions_encoded": "LLVM IR (clang-14 -O0 -disable-O0-optnone; opt -always-inline -mem2reg) of the C emitted by exo.API.compile_procs_to_strings, regenerated on this run; reference: vlib/loopsym.py on the same LoopIR",
                     "source_hashes": repo_file_hashes(["src/exo/backend/LoopIR_compiler.py", "src/exo/backend/mem_analysis.py", "src/exo/backend/prec_analysis.py", "src/exo/backend/win_analysis.py", "src/exo/core/memory.py", "src/exo/libs/memories.py", "src/exo/libs/externs.py"]),
                     "known_findings_matched": {k: v[1] for k, v in rep.known.items()}})
    assumptions = ["size arguments are case-split by solver enumeration (all valuations within bounds); index/bool arguments, buffer contents, window base offsets and strides, initial configuration are symbolic",
                   "reals for floats (casts are identity, literals exact); integer-typed data only moved", "malloc never fails; sizes < 2^31", "inputs on which the LoopIR itself violates a safety obligation are excluded (C03/C04's business)",
                   "pure scalar helper functions (_relu_, _select_, sigmoid) are summarised over all their paths; libm functions are uninterpreted symbols shared with the reference"]
    write_evidence(prop, tier, vseed, level, coverage, assumptions, time.time() - t0, len(rep.violations))
    bad = stats["inconclusive"] + stats["harness_error"] + stats["unreproduced"]
    print(f"{prop} {tier}: {stats['programs']} programs, {ok} decided ({stats['compile_rejected']} rejected by the backend, {stats['inconclusive']} inconclusive, {stats['skipped']} skipped), {stats['paths']} paths, {stats['obligations']} obligations, {stats['queries']} queries, unknown={stats['unknown']}, {time.time()-t0:.0f}s")
    for e in errors[:4]:
        print("   note:", e[:300])
    if code == 0 and (ok < 5 or bad > 0.2 * max(1, stats["programs"]) or any("crashed" in e for e in errors)):
        return common.EXIT_HARNESS
    return code
