"""C03: accepted procedures are memory-safe and call-safe.

Every source of F-seed and of the mutation layer is given to the real front end;
every ACCEPTED program is executed by loopsym and z3 is asked for an input
(satisfying the program's assertions) that violates any safety obligation."""
from __future__ import annotations

import multiprocessing as mp
import os
import random
import time
import traceback
from collections import Counter

import z3

from . import common
from . import loopsym as L
from .common import Reporter, ncpu, repo_file_hashes, seed_from_env, write_evidence
from .equiv import ProcCtx, cex_to_json, conc_run
from .loopsym import Bounds, ConcViolation, TooBig, Unsupported

C03_KINDS = ("bounds", "view_extent", "loop_range", "call_pred", "call_size", "call_shape", "alias")


def check_program(name, p, bounds, timeout_ms=20000):
    """-> result dict for one accepted program"""
    res = {"name": name, "status": "ok", "violations": []}
    p_ir = p._loopir_proc
    try:
        ctx = ProcCtx(p_ir, bounds, timeout_ms=timeout_ms)
    except (Unsupported, TooBig) as ex:
        res["status"] = "skipped"
        res["why"] = f"{type(ex).__name__}: {ex}"
        return res
    except L.IllFormed as ex:
        res["status"] = "illformed"
        res["why"] = str(ex)
        return res
    r = ctx._check([])
    ctx._pop()
    if r != z3.sat:
        res["status"] = "vacuous"
        return res
    obls = [o for o in ctx.r1.obls if o.kind in C03_KINDS]
    res["obligations"] = len(obls)
    res["stmts"] = ctx.r1.nstmts
    res["unwind_ok"] = True
    if not obls:
        res["queries"] = ctx.queries
        return res
    viol, inconc, n = ctx.check_obligations(p_ir, ctx.r1, kinds=C03_KINDS, assume_safe_p=False)
    res["inconclusive"] = inconc
    for o, cex in viol:
        try:
            conc_run(p_ir, cex)
            res.setdefault("unreproduced", []).append({"kind": o.kind, "where": o.where})
        except ConcViolation as cv:
            res["violations"].append({"kind": cv.kind, "obl_kind": o.kind, "where": o.where, "replay": str(cv), "cex": cex_to_json(cex)})
        except (Unsupported, TooBig, ZeroDivisionError) as ex:
            res["inconclusive"] = res.get("inconclusive", 0) + 1
    res["queries"] = ctx.queries
    res["solver_s"] = round(ctx.solver_s, 3)
    unbounded_variant(p_ir, res)
    return res


def unbounded_variant(p_ir, res, timeout_ms=8000):
    """The same obligations over UNBOUNDED sizes and index arguments: loops are not unrolled but summarised by one
    arbitrary iteration (loopsym Bounds.unbounded).  unsat = the obligation holds for every size; a model is
    replayed concretely and reported only if it reproduces; anything else is counted inconclusive."""
    try:
        ub = Bounds(unbounded=True, stmt_budget=4000)
        cu = ProcCtx(p_ir, ub, timeout_ms=timeout_ms, tag="u")
    except (Unsupported, TooBig, L.IllFormed) as ex:
        res["unbounded"] = "skipped"
        return
    obls = [o for o in cu.r1.obls if o.kind in C03_KINDS]
    res["unbounded_obligations"] = len(obls)
    if not obls:
        res["unbounded"] = "holds"
        return
    viol, inconc, n = cu.check_obligations(p_ir, cu.r1, kinds=C03_KINDS, assume_safe_p=False)
    res["queries"] = res.get("queries", 0) + cu.queries
    if not viol and not inconc:
        res["unbounded"] = "holds"
        return
    res["unbounded"] = "inconclusive"
    have = {(v["kind"]) for v in res["violations"]}
    for o, cex in viol:
        try:
            conc_run(p_ir, cex)
        except ConcViolation as cv:
            res["unbounded"] = "violated"
            if cv.kind not in have:
                res["violations"].append({"kind": cv.kind, "obl_kind": o.kind, "where": o.where, "replay": str(cv) + " (found by the unbounded variant)", "cex": cex_to_json(cex)})
                have.add(cv.kind)
        except (Unsupported, TooBig, ZeroDivisionError, RecursionError, MemoryError):
            pass


def _work(job):
    devnull = os.open(os.devnull, os.O_WRONLY)
    saved = os.dup(1)
    os.dup2(devnull, 1)
    try:
        return _work_inner(job)
    except BaseException as ex:  # noqa
        return {"results": [], "rejected": 0, "errors": [f"worker crashed: {type(ex).__name__}: {ex}", traceback.format_exc()[-1500:]]}
    finally:
        os.dup2(saved, 1)
        os.close(devnull)
        os.close(saved)


def _work_inner(job):
    from .mutate_src import build_module, mutants_of, seed_functions
    import corpus.seeds as S

    bounds = Bounds(**job["bounds"])
    rng = random.Random(f"c03-{job['rngseed']}-{(job['seeds'] or ['gen'])[0]}")
    fns = seed_functions()
    out = {"results": [], "rejected": 0, "errors": [], "rej_samples": []}
    progs = []
    descr = {}
    for name in job["seeds"]:
        p = S.by_name(name)
        r = check_program(name, p, bounds)
        r["src"] = str(p)
        r["origin"] = "seed"
        out["results"].append(r)
        if name in fns:
            node, kind, instr_src = fns[name]
            for mname, d, src in mutants_of(name, node, kind, instr_src, limit=job["mut_limit"], rng=rng):
                progs.append((mname, src))
                descr[mname] = d
    if job.get("tight"):
        from .tight import c03_family

        fam = c03_family()[job["tight"]]
        lo, hi = job.get("slice", (0, len(fam)))
        for tname, tsrc in fam[lo:hi]:
            progs.append((tname, tsrc))
            descr[tname] = "tight:" + job["tight"]
    if job.get("gen"):
        from .gen import generate

        gseed, gcount = job["gen"]
        for gname, gsrc in generate(gseed, gcount):
            progs.append((gname, gsrc))
            descr[gname] = "generated"
    if progs:
        mod = build_module(job["seeds"][0] if job["seeds"] else (f"gen{job['gen'][0]}" if job.get("gen") else f"tight_{job['tight']}_{job.get('slice', (0,))[0]}"), progs)
        out["rejected"] = len(mod.REJ)
        out["rej_samples"] = list(mod.REJ.items())[:3]
        for mname, p in mod.PROCS.items():
            r = check_program(mname, p, bounds)
            r["src"] = str(p)
            dd = descr.get(mname, "")
            r["origin"] = "generated" if dd == "generated" else (dd if dd.startswith("tight:") else "mutant:" + dd)
            out["results"].append(r)
    return out


def run(tier):
    from .check_sweep import seed_names

    t0 = time.time()
    vseed = seed_from_env()
    names = seed_names()
    if tier == "quick":
        bounds = dict(size_max=3)
        mut_limit = 10
        if not os.environ.get("VERIF_ALLSEEDS"):
            pass  # quick also covers every seed (detection must not depend on the rotation)
    else:
        bounds = dict(size_max=4, idx_max=5, stmt_budget=2500)
        mut_limit = None
    jobs = [dict(seeds=names[b : b + 2], bounds=bounds, rngseed=vseed, mut_limit=mut_limit) for b in range(0, len(names), 2)]
    # F-gen: grammar-generated sources (a fixed pool of generator seeds; quick takes a seed-rotated slice)
    n_gen_jobs, per_job = (8, 12) if tier == "quick" else (40, 25)
    base = (vseed % 5) * 100 if tier == "quick" else 0
    jobs += [dict(seeds=[], bounds=bounds, rngseed=vseed, mut_limit=0, gen=(base + g, per_job)) for g in range(n_gen_jobs)]
    # tight families (vlib/tight.py): boundary grids for every acceptance check of the front end; always complete
    from .tight import c03_family

    fam_sizes = {k: len(v) for k, v in c03_family().items()}
    for fam, n in fam_sizes.items():
        for lo in range(0, n, 25):
            jobs.append(dict(seeds=[], bounds=bounds, rngseed=vseed, mut_limit=0, tight=fam, slice=(lo, min(n, lo + 25))))
    with mp.get_context("fork").Pool(ncpu(), maxtasksperchild=4) as pool:
        outs = pool.map(_work, jobs, chunksize=1)
    rep = Reporter("C03")
    stats = Counter()
    samples = []
    errors = []
    queries = 0
    solver_s = 0.0
    states = 0
    for o in outs:
        errors += o.get("errors", [])
        stats["rejected_by_frontend"] += o.get("rejected", 0)
        for r in o["results"]:
            stats["accepted_programs"] += 1
            stats[r["status"]] += 1
            stats["obligations"] += r.get("obligations", 0)
            stats["inconclusive"] += r.get("inconclusive", 0)
            if r.get("unbounded"):
                stats["unbounded_" + r["unbounded"]] += 1
            states += r.get("stmts", 0)
            queries += r.get("queries", 0)
            solver_s += r.get("solver_s", 0.0)
            if r.get("unreproduced"):
                stats["unreproduced"] += len(r["unreproduced"])
                errors.append(f"{r['name']}: candidate not reproduced: {r['unreproduced'][:2]}")
            for v in r["violations"]:
                rec = {"property": "C03", "program": r["name"], "origin": r["origin"], "src": r["src"], "kind": v["kind"], "obl_kind": v["obl_kind"], "where": v["where"], "detail": v["replay"], "cex": v["cex"],
                       "summary": f"accepted program {r['name']} ({r['origin']}): {v['replay']}", "dedup": f"{r['name']}|{v['kind']}"}
                rep.report(rec)
            if len(samples) < 4 and r.get("obligations"):
                samples.append({"program": r["name"], "origin": r["origin"], "obligations": r["obligations"], "source": r["src"][:400]})
    code = rep.finish()
    coverage = {
        "states": max(1, states),
        "transitions": max(1, stats["obligations"]),
        "traces_validated_against_impl": len(rep.violations) + sum(v[1] for v in rep.known.values()),
        "samples": samples or [{"note": "none"}],
        "evaluations": stats["accepted_programs"],
        "distinct_nontrivial": stats["ok"],
        "rule": "one case = one source text accepted by the real front end (seed or one-edit mutant); states = unrolled statements executed symbolically; transitions = safety obligations posed to z3",
        "status_counts": dict(stats),
        "solver_queries": queries,
        "solver_s": round(solver_s, 2),
        "errors": errors[:10],
        "bounds": bounds,
        "obligation_kinds": list(C03_KINDS),
        "unbounded_variant": {k[len("unbounded_"):]: v for k, v in stats.items() if k.startswith("unbounded_")},
        "tight_families": fam_sizes,
        "tight_accepted": {k: sum(1 for o in outs for r in o["results"] if r.get("origin") == "tight:" + k) for k in fam_sizes},
        "source_hashes": repo_file_hashes(["src/exo/frontend/boundscheck.py", "src/exo/frontend/typecheck.py", "src/exo/rewrite/new_eff.py", "src/exo/API.py"]),
        "known_findings_matched": {k: v[1] for k, v in rep.known.items()},
    }
    assumptions = [
        "sizes in [1,N], index args in a box, bools free; the program's own assertions are assumed, nothing else",
        "rejected sources only contribute counts (over-rejection is not a C03 violation)",
        "allocation extents >= 1 are not part of C03's statement and are not judged here",
        "every unwinding obligation holds by construction (unroll count = solver-computed maximum trip count; programs exceeding the cap are skipped and counted)",
        "unbounded variant (reported separately in coverage.unbounded_variant): sizes and index arguments unbounded, each loop summarised by one arbitrary iteration with every configuration field the body may write havoc'd; 'holds' = every obligation is valid for ALL sizes; 'inconclusive' = the solver answered sat/unknown but no concrete run reproduced it (over-approximation), never counted as held",
    ]
    write_evidence("C03", tier, vseed, "model_checking", coverage, assumptions, time.time() - t0, len(rep.violations))
    print(f"C03 {tier}: {stats['accepted_programs']} accepted programs ({stats['rejected_by_frontend']} rejected), {stats['obligations']} obligations, {queries} queries, inconclusive={stats['inconclusive']}, skipped={stats['skipped']}, {time.time()-t0:.0f}s")
    for e in errors[:3]:
        print("   note:", e[:300])
    if code == 0 and (stats["inconclusive"] + stats["unreproduced"] > 0.2 * max(1, stats["accepted_programs"]) or stats["accepted_programs"] < 5 or any("crashed" in e for e in errors)):
        return common.EXIT_HARNESS
    return code
