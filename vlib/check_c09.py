"""C09: parallel loops that compile are race-free (BMC over pairs of iterations)."""
from __future__ import annotations

import itertools
import multiprocessing as mp
import os
import random
import time
import traceback
from collections import Counter, defaultdict

import z3

from . import common
from . import loopsym as L
from . import sched_enum as SE
from .common import Reporter, ncpu, repo_file_hashes, seed_from_env, write_evidence
from .equiv import ProcCtx, cex_to_json
from .loopsym import Bounds, ConcExec, ConcViolation, TooBig, Unsupported, copy_conc_args


def compiles(p):
    try:
        from .sweep import with_watchdog

        with_watchdog(p.c_code_str)
        return True, None
    except BaseException as ex:  # noqa
        if isinstance(ex, (KeyboardInterrupt, SystemExit)):
            raise
        return False, f"{type(ex).__name__}: {str(ex)[:150]}"


def race_formulas(log):
    """group accesses by (par loop uid, store); yield (uid, loopname, storekey, formula, pairs)"""
    by = defaultdict(list)
    for a in log:
        for depth, (uid, k, nm) in enumerate(a.par):
            key = a.store if isinstance(a.store, tuple) else a.store.uid
            by[(uid, nm, key)].append((k, a))
    for (uid, nm, key), accs in by.items():
        pairs = []
        for (k1, a), (k2, b) in itertools.combinations(accs, 2):
            if k1 == k2:
                continue
            if a.kind == "r" and b.kind == "r":
                continue
            conds = [L._b(a.guard), L._b(b.guard)]
            if len(a.idx) != len(b.idx):
                continue
            for i, j in zip(a.idx, b.idx):
                conds.append(i == j)
            pairs.append((z3.And(*conds), a, b, k1, k2))
        if pairs:
            yield uid, nm, key, z3.Or(*[p[0] for p in pairs]), pairs


def concrete_race(p_ir, cex):
    """replay: run sequentially, log accesses with their parallel-iteration context, look for a conflict"""
    ex = ConcExec(cfg=cex["cfg"], uf_eval=cex.get("uf"), strict=True)
    ex.accesses = []
    ex.run(p_ir, copy_conc_args(cex["args"]))
    by = defaultdict(list)
    for kind, st, idx, par, where in ex.accesses:
        for uid, k, nm in par:
            by[(uid, nm, st, tuple(idx))].append((k, kind, where))
    for (uid, nm, st, idx), accs in by.items():
        for (k1, kd1, w1), (k2, kd2, w2) in itertools.combinations(accs, 2):
            if k1 != k2 and not (kd1 == "r" and kd2 == "r"):
                return f"par loop {nm}: iteration {k1} ({w1}, {kd1}) and iteration {k2} ({w2}, {kd2}) touch the same location {idx}"
    return None


def check_par_program(name, p, bounds):
    res = {"name": name, "status": "ok", "violations": [], "src": str(p)}
    ok, why = compiles(p)
    if not ok:
        res["status"] = "compile_rejected"
        res["why"] = why
        return res
    p_ir = p._loopir_proc
    try:
        ctx = ProcCtx(p_ir, bounds, timeout_ms=20000)
        r = ctx.symbolic_run(p_ir, tag="p_", log_access=True)
    except (Unsupported, TooBig, L.IllFormed) as ex:
        res["status"] = "skipped"
        res["why"] = f"{type(ex).__name__}: {ex}"
        return res
    res["accesses"] = len(r.log)
    npairs = 0
    nq = 0
    for uid, nm, key, f, pairs in race_formulas(r.log):
        npairs += len(pairs)
        nq += 1
        rr = ctx._check(ctx.safe_p + [f])
        if rr == z3.sat:
            m = ctx.solver.model()
            cex = L.concretize(ctx.inputs, m)
            ctx._pop()
            try:
                desc = concrete_race(p_ir, cex)
            except (ConcViolation, Unsupported, TooBig, ZeroDivisionError) as ex:
                desc = None
                res["inconclusive"] = res.get("inconclusive", 0) + 1
                continue
            if desc:
                res["violations"].append({"loop": nm, "detail": desc, "cex": cex_to_json(cex)})
            else:
                res.setdefault("unreproduced", []).append(nm)
        else:
            ctx._pop()
            if rr == z3.unknown:
                res["inconclusive"] = res.get("inconclusive", 0) + 1
    res["pairs"] = npairs
    res["queries"] = nq
    res["solver_s"] = round(ctx.solver_s, 3)
    return res


def par_variants(name, p, env, rng, tier):
    """programs with parallel loops derived from one seed"""
    from exo.stdlib.scheduling import parallelize_loop, call_eqv

    import exo.API_cursors as PC

    out = []
    ir = p._loopir_proc

    def has_par(stmts):
        from exo.core.LoopIR import LoopIR

        for s in stmts:
            if isinstance(s, LoopIR.For) and isinstance(s.loop_mode, LoopIR.Par):
                return True
            for attr in ("body", "orelse"):
                if hasattr(s, attr) and has_par(getattr(s, attr)):
                    return True
        return False

    if has_par(ir.body):
        out.append((f"{name}:as_written", p))
    loops = [s for s in SE.stmt_cursors(p) if isinstance(s, PC.ForCursor)]
    singles = []
    for k, lp in enumerate(loops):
        try:
            q = parallelize_loop(p, lp)
            singles.append((k, q))
            out.append((f"{name}:par({lp.name()}#{k})", q))
        except BaseException:  # noqa
            pass
    # two loops at once
    for (k1, q1), (k2, _q2) in list(itertools.combinations(singles, 2))[: (2 if tier == "quick" else 8)]:
        try:
            lp2 = [s for s in SE.stmt_cursors(q1) if isinstance(s, PC.ForCursor)][k2]
            out.append((f"{name}:par(#{k1},#{k2})", parallelize_loop(q1, lp2)))
        except BaseException:  # noqa
            pass
    # parallel loop inside a callee
    calls = [s for s in SE.stmt_cursors(p) if isinstance(s, PC.CallCursor)]
    for c in calls[:2]:
        try:
            f = c.subproc()
            floops = [s for s in SE.stmt_cursors(f) if isinstance(s, PC.ForCursor)]
            for k, fl in enumerate(floops[:2]):
                f2 = parallelize_loop(f, fl)
                out.append((f"{name}:callee {f.name()} par(#{k})", call_eqv(p, c, f2)))
        except BaseException:  # noqa
            pass
    return out


def _work(job):
    devnull = os.open(os.devnull, os.O_WRONLY)
    saved = os.dup(1)
    os.dup2(devnull, 1)
    try:
        return _work_inner(job)
    except BaseException as ex:  # noqa
        return {"results": [], "errors": [f"worker crashed: {type(ex).__name__}: {ex}", traceback.format_exc()[-1500:]]}
    finally:
        os.dup2(saved, 1)
        os.close(devnull)
        os.close(saved)


def _work_inner(job):
    import corpus.seeds as S
    from .sweep import load_env
    from .mutate_src import build_module, mutants_of, seed_functions

    env = load_env()
    bounds = Bounds(**job["bounds"])
    out = {"results": [], "errors": []}
    if job.get("tight"):
        # boundary grid of parallel programs (vlib/tight.py): whatever the backend compiles is model-checked
        from .tight import par_family

        lo, hi = job["tight"]
        fam = par_family()[lo:hi]
        mod = build_module(f"c09_tight_{lo}", fam)
        out["tight_rejected_by_frontend"] = len(mod.REJ)
        for nm, q in mod.PROCS.items():
            try:
                r = check_par_program("tight:" + nm, q, bounds)
            except Exception as ex:
                r = {"name": nm, "status": "harness_error", "why": f"{type(ex).__name__}: {ex}", "violations": [], "tb": traceback.format_exc()[-800:]}
            out["results"].append(r)
        return out
    rng = random.Random(f"c09-{job['rngseed']}-{job['seeds'][0]}")
    fns = seed_functions()
    for name in job["seeds"]:
        p = S.by_name(name)
        progs = par_variants(name, p, env, rng, job["tier"])
        # one-edit source mutants of the seed, each with its loops parallelised
        if name in fns and job["mut_limit"] != 0:
            node, kind, instr_src = fns[name]
            muts = mutants_of(name, node, kind, instr_src, limit=job["mut_limit"], rng=rng)
            if muts:
                mod = build_module("c09_" + name, [(mn, src) for mn, _d, src in muts])
                for mn, mp_ in mod.PROCS.items():
                    progs += par_variants(mn, mp_, env, rng, "quick")[:3]
        for nm, q in progs:
            try:
                r = check_par_program(nm, q, bounds)
            except Exception as ex:
                r = {"name": nm, "status": "harness_error", "why": f"{type(ex).__name__}: {ex}", "violations": [], "tb": traceback.format_exc()[-800:]}
            out["results"].append(r)
    return out


def run(tier):
    from .check_sweep import seed_names

    t0 = time.time()
    vseed = seed_from_env()
    names = seed_names()
    if tier == "quick":
        bounds = dict(size_max=3)
        mut_limit = 3
        if not os.environ.get("VERIF_ALLSEEDS"):
            pass  # quick also covers every seed (detection must not depend on the rotation)
    else:
        bounds = dict(size_max=4, idx_max=5, stmt_budget=2500)
        mut_limit = 12
    jobs = [dict(seeds=names[b : b + 2], bounds=bounds, rngseed=vseed, tier=tier, mut_limit=mut_limit) for b in range(0, len(names), 2)]
    from .tight import par_family

    n_tight = len(par_family())
    jobs += [dict(seeds=[], bounds=bounds, rngseed=vseed, tier=tier, mut_limit=0, tight=(lo, min(n_tight, lo + 12))) for lo in range(0, n_tight, 12)]
    with mp.get_context("fork").Pool(ncpu(), maxtasksperchild=4) as pool:
        outs = pool.map(_work, jobs, chunksize=1)
    rep = Reporter("C09")
    stats = Counter()
    samples = []
    errors = []
    for o in outs:
        errors += o.get("errors", [])
        for r in o["results"]:
            stats["programs"] += 1
            stats[r["status"]] += 1
            if r["status"] == "harness_error":
                errors.append(f"{r['name']}: {r.get('why')}")
            if r["status"] != "ok":
                continue
            stats["pairs"] += r.get("pairs", 0)
            stats["queries"] += r.get("queries", 0)
            stats["accesses"] += r.get("accesses", 0)
            stats["inconclusive"] += r.get("inconclusive", 0)
            stats["unreproduced"] += len(r.get("unreproduced", []))
            for v in r["violations"]:
                rec = {"property": "C09", "program": r["name"], "src": r["src"], "loop": v["loop"], "detail": v["detail"], "cex": v["cex"],
                       "summary": f"{r['name']} compiles but races: {v['detail']}", "dedup": f"{r['name']}|{v['loop']}"}
                rep.report(rec)
            if len(samples) < 4 and r.get("pairs"):
                samples.append({"program": r["name"], "pairs": r["pairs"], "queries": r["queries"], "source": r["src"][:400]})
    code = rep.finish()
    coverage = {
        "states": max(1, stats["accesses"]),
        "transitions": max(1, stats["pairs"]),
        "traces_validated_against_impl": len(rep.violations) + sum(v[1] for v in rep.known.values()),
        "samples": samples or [{"note": "none"}],
        "evaluations": stats["programs"],
        "distinct_nontrivial": stats["ok"],
        "rule": "one case = one procedure with at least one parallel loop (as written, parallelize_loop at each loop / pairs of loops / inside a callee via call_eqv, also on one-edit source mutants); judged only if the real backend compiles it; states = logged accesses, transitions = (iteration pair x access pair) conflict candidates encoded",
        "status_counts": dict(stats),
        "errors": errors[:10],
        "bounds": bounds,
        "source_hashes": repo_file_hashes(["src/exo/backend/parallel_analysis.py", "src/exo/rewrite/new_eff.py", "src/exo/backend/LoopIR_compiler.py"]),
        "known_findings_matched": {k: v[1] for k, v in rep.known.items()},
    }
    assumptions = ["trip counts <= N (bounded unrolling)", "states come from the sequential execution, so no unreachable state is considered", "reduce-reduce on the same location counts as a race (the emitted code has no atomics)", "OpenMP runtime behaviour is outside"]
    write_evidence("C09", tier, vseed, "model_checking", coverage, assumptions, time.time() - t0, len(rep.violations))
    print(f"C09 {tier}: {stats['programs']} parallel programs, {stats['ok']} compile and were model-checked ({stats['compile_rejected']} rejected by the backend), {stats['pairs']} conflict candidates, {stats['queries']} queries, inconclusive={stats['inconclusive']}, {time.time()-t0:.0f}s")
    for e in errors[:3]:
        print("   note:", e[:300])
    if code == 0 and (stats["ok"] < 3 or stats["inconclusive"] + stats["unreproduced"] + stats["harness_error"] > 0.2 * max(1, stats["ok"]) or any("crashed" in e for e in errors)):
        return common.EXIT_HARNESS
    return code
