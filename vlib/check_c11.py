"""C11: procedure-equivalence tracking is a sound congruence.

Inductive step with py2smt: from an ARBITRARY state satisfying the representation
invariant, one arbitrary operation of exo/core/proc_eqv.py (executed symbolically
from its source) preserves the invariant and changes the abstract relations
exactly as the closure specification prescribes; queries answer exactly what the
abstract relations say.  One step covers histories of any length (n <= 4
procedures, K <= 3 keys)."""
from __future__ import annotations

import itertools
import random
import time
import weakref
from collections import Counter

import z3

from . import common
from .common import Reporter, repo_file_hashes, seed_from_env, write_evidence
from .py2smt import B, ConfigSet, Interp, KeyDict, Py2SmtUnsupported, State, UF, idv, idvar


# ---------------------------------------------------------------------------
# specification side (mine, in z3): representatives, relations, invariant


def rep(uf: UF, i):
    r = i
    for _ in range(uf.n):
        r = uf.get_parent(r)
    return r


def E(uf: UF, i, j):
    return rep(uf, i) == rep(uf, j)


def inrange(p, n):
    from .py2smt import IDW

    return z3.BoolVal(True) if n == 2**IDW else z3.ULT(p, idv(n))


def sym_state(n, K, tag):
    st = State(n, K)
    present = [z3.Bool(f"{tag}pres{i}") for i in range(n)]

    def mk(name):
        return UF(n, list(present), [idvar(f"{tag}{name}_par{i}") for i in range(n)])

    st.unv = mk("U")
    st.strict = mk("S")
    tracked = [z3.Bool(f"{tag}tracked{k}") for k in range(K)]
    st.keyd = KeyDict(n, K, tracked, [mk(f"K{k}") for k in range(K)])
    return st, present


def inv(st: State, present):
    n, K = st.n, st.K
    cs = []

    def forest(uf: UF, on):
        out = []
        for i in range(n):
            p = uf.parent[i]
            out.append(z3.Implies(z3.And(on, uf.present[i]), z3.And(inrange(p, n), uf.get_present(p))))
            # acyclic: following parents n times from i ends in a root
            r = rep(uf, idv(i))
            out.append(z3.Implies(z3.And(on, uf.present[i]), uf.get_parent(r) == r))
        return out

    cs += forest(st.unv, z3.BoolVal(True))
    cs += forest(st.strict, z3.BoolVal(True))
    for k in range(K):
        cs += forest(st.keyd.ufs[k], st.keyd.tracked[k])
    # the same nodes are present everywhere
    for i in range(n):
        cs.append(st.unv.present[i] == present[i])
        cs.append(st.strict.present[i] == present[i])
        for k in range(K):
            cs.append(z3.Implies(st.keyd.tracked[k], st.keyd.ufs[k].present[i] == present[i]))
    # refinement: E_S <= E_k <= E_U
    for i, j in itertools.combinations(range(n), 2):
        pij = z3.And(present[i], present[j])
        I, J = idv(i), idv(j)
        cs.append(z3.Implies(z3.And(pij, E(st.strict, I, J)), E(st.unv, I, J)))
        for k in range(K):
            t = st.keyd.tracked[k]
            cs.append(z3.Implies(z3.And(pij, t, E(st.strict, I, J)), E(st.keyd.ufs[k], I, J)))
            cs.append(z3.Implies(z3.And(pij, t, E(st.keyd.ufs[k], I, J)), E(st.unv, I, J)))
    return cs


def snapshot_rel(uf: UF, n):
    """relation matrix terms of a UF *as it is now* (terms are immutable)"""
    return {(i, j): E(uf, idv(i), idv(j)) for i in range(n) for j in range(n)}


def closure(Eold, n, p, q):
    """E (+) (p,q) as a matrix of terms; p,q symbolic ids"""

    def at(i, x):
        # E(i, x) with symbolic x
        r = z3.BoolVal(False)
        for j in range(n):
            r = z3.If(x == idv(j), Eold[(i, j)], r)
        return r

    out = {}
    for i in range(n):
        for j in range(n):
            out[(i, j)] = z3.Or(Eold[(i, j)], z3.And(at(i, p), at(j, q)), z3.And(at(i, q), at(j, p)))
    return out


def copy_state(st: State):
    s2 = State(st.n, st.K)
    s2.unv, s2.strict = st.unv.copy(), st.strict.copy()
    s2.keyd = KeyDict(st.n, st.K, list(st.keyd.tracked), [u.copy() for u in st.keyd.ufs])
    return s2


def _solve_smt2(job):
    name, smt2, timeout_ms = job
    s = z3.SolverFor("QF_BV")
    s.set("timeout", timeout_ms)
    s.from_string(smt2)
    t0 = time.time()
    r = s.check()
    return name, str(r), round(time.time() - t0, 2)


class Step:
    """collects validity queries; they are discharged in parallel from SMT-LIB2 dumps"""

    def __init__(self, n, K):
        self.n, self.K = n, K
        self.jobs = []  # (name, smt2, kind)
        self.results = []  # (name, verdict, seconds, model, info)
        self.solver_s = 0.0

    def _dump(self, fs):
        s = z3.Solver()
        s.add(*fs)
        return s.to_smt2()

    def prove(self, name, hyps, goal, info=None):
        # split a conjunction goal into its conjuncts: smaller queries, better diagnostics
        goals = list(goal.children()) if z3.is_and(goal) and len(goal.children()) > 1 else [goal]
        if len(goals) > 24:
            k = (len(goals) + 23) // 24
            goals = [z3.And(*goals[i : i + k]) for i in range(0, len(goals), k)]
        for gi, g in enumerate(goals):
            nm = name if len(goals) == 1 else f"{name} [{gi + 1}/{len(goals)}]"
            self.jobs.append((nm, self._dump(list(hyps) + [z3.Not(g)]), "prove"))

    def witness(self, name, hyps):
        self.jobs.append((name + " [reachability witness]", self._dump(list(hyps)), "witness"))

    def discharge(self, timeout_ms, nproc):
        import multiprocessing as mp

        kinds = {nm: kd for nm, _s, kd in self.jobs}
        with mp.get_context("fork").Pool(nproc) as pool:
            outs = pool.map(_solve_smt2, [(nm, smt2, timeout_ms) for nm, smt2, _k in self.jobs], chunksize=1)
        for nm, r, dt in outs:
            self.solver_s += dt
            if kinds[nm] == "witness":
                self.results.append((nm, "sat-ok" if r == "sat" else f"VACUOUS({r})", dt, None, None))
            else:
                self.results.append((nm, r, dt, None, None))


def run_step(n, K, unroll=None, timeout_ms=240000):
    unroll = unroll or n
    step = Step(n, K)
    pairs = [(i, j) for i in range(n) for j in range(n)]

    def rel_eq(Ea, Eb, present_new):
        return z3.And(*[z3.Implies(z3.And(present_new[i], present_new[j]), Ea[(i, j)] == Eb[(i, j)]) for i, j in pairs])

    # ---- decl_new_proc ---------------------------------------------------------
    st, present = sym_state(n, K, "d_")
    pre = inv(st, present)
    pre_rel = {"U": snapshot_rel(st.unv, n), "S": snapshot_rel(st.strict, n), **{k: snapshot_rel(st.keyd.ufs[k], n) for k in range(K)}}
    tracked0 = list(st.keyd.tracked)
    x = idvar("d_x")
    hyp = pre + [inrange(x, n), z3.Not(st.unv.get_present(x))]
    it = Interp(st, unroll)
    it.call_function("decl_new_proc", [x], z3.BoolVal(True))
    present2 = [z3.Or(present[i], x == idv(i)) for i in range(n)]
    step.witness("decl_new_proc", hyp)
    for kind, f in it.unwind_obls:
        step.prove(f"decl_new_proc: {kind} obligation", hyp, z3.Not(f))
    step.prove("decl_new_proc: invariant preserved", hyp, z3.And(*inv(st, present2)))

    def fresh_rel(Eold):
        # old relation on old nodes; x alone in its class
        out = {}
        for i, j in pairs:
            out[(i, j)] = z3.If(z3.Or(x == idv(i), x == idv(j)), z3.BoolVal(i == j), Eold[(i, j)])
        return out

    goals = [rel_eq(snapshot_rel(st.unv, n), fresh_rel(pre_rel["U"]), present2), rel_eq(snapshot_rel(st.strict, n), fresh_rel(pre_rel["S"]), present2)]
    for k in range(K):
        goals.append(z3.Implies(tracked0[k], rel_eq(snapshot_rel(st.keyd.ufs[k], n), fresh_rel(pre_rel[k]), present2)))
        goals.append(st.keyd.tracked[k] == tracked0[k])
    step.prove("decl_new_proc: relations = old + singleton {x}", hyp, z3.And(*goals))

    # ---- assert_eqv_proc -----------------------------------------------------------
    st, present = sym_state(n, K, "a_")
    pre = inv(st, present)
    pre_rel = {"U": snapshot_rel(st.unv, n), "S": snapshot_rel(st.strict, n), **{k: snapshot_rel(st.keyd.ufs[k], n) for k in range(K)}}
    tracked0 = list(st.keyd.tracked)
    p, q = idvar("a_p"), idvar("a_q")
    C = [z3.Bool(f"a_inC{k}") for k in range(K)]
    hyp = pre + [inrange(p, n), inrange(q, n), st.unv.get_present(p), st.unv.get_present(q)]
    it = Interp(st, unroll)
    it.call_function("assert_eqv_proc", [p, q, ConfigSet(C)], z3.BoolVal(True))
    step.witness("assert_eqv_proc", hyp + [z3.Not(pre_rel["U"][(0, 1)]), p == idv(0), q == idv(1)])
    for kind, f in it.unwind_obls:
        step.prove(f"assert_eqv_proc: {kind} obligation", hyp, z3.Not(f))
    step.prove("assert_eqv_proc: invariant preserved", hyp, z3.And(*inv(st, present)))
    C_empty = z3.Not(z3.Or(*C))
    cl = {name: closure(pre_rel[name], n, p, q) for name in pre_rel}
    goals = [rel_eq(snapshot_rel(st.unv, n), cl["U"], present)]
    step.prove("assert_eqv_proc: E_U' = E_U (+) (p,q)", hyp, goals[0])
    S_after = snapshot_rel(st.strict, n)
    step.prove("assert_eqv_proc: E_S' = E_S (+) (p,q) iff modulo-set empty", hyp, z3.And(z3.Implies(C_empty, rel_eq(S_after, cl["S"], present)), z3.Implies(z3.Not(C_empty), rel_eq(S_after, pre_rel["S"], present))))
    for k in range(K):
        after = snapshot_rel(st.keyd.ufs[k], n)
        g = []
        g.append(st.keyd.tracked[k] == z3.Or(tracked0[k], C[k]))
        # key first seen now: copy of E_U *before* this step's union
        g.append(z3.Implies(z3.And(z3.Not(tracked0[k]), C[k]), rel_eq(after, pre_rel["U"], present)))
        # tracked, in C: unchanged
        g.append(z3.Implies(z3.And(tracked0[k], C[k]), rel_eq(after, pre_rel[k], present)))
        # tracked, not in C: absorbs the step
        g.append(z3.Implies(z3.And(tracked0[k], z3.Not(C[k])), rel_eq(after, cl[k], present)))
        step.prove(f"assert_eqv_proc: key {k} relation per modulo-set / first mention", hyp, z3.And(*g))

    # ---- derive_proc = decl ; assert ----------------------------------------------
    st, present = sym_state(n, K, "v_")
    pre = inv(st, present)
    preU = snapshot_rel(st.unv, n)
    o, x = idvar("v_o"), idvar("v_x")
    C = [z3.Bool(f"v_inC{k}") for k in range(K)]
    hyp = pre + [inrange(o, n), inrange(x, n), st.unv.get_present(o), z3.Not(st.unv.get_present(x))]
    it = Interp(st, unroll)
    it.call_function("derive_proc", [o, x, ConfigSet(C)], z3.BoolVal(True))
    present2 = [z3.Or(present[i], x == idv(i)) for i in range(n)]
    step.witness("derive_proc", hyp)
    for kind, f in it.unwind_obls:
        step.prove(f"derive_proc: {kind} obligation", hyp, z3.Not(f))
    step.prove("derive_proc: invariant preserved", hyp, z3.And(*inv(st, present2)))
    # new proc is U-equivalent to exactly the class of its origin
    afterU = snapshot_rel(st.unv, n)
    g = []
    for j in range(n):
        # E_U'(x, j) == E_U(o, j) for old j
        exj = z3.BoolVal(False)
        eoj = z3.BoolVal(False)
        for i in range(n):
            exj = z3.If(x == idv(i), afterU[(i, j)], exj)
            eoj = z3.If(o == idv(i), preU[(i, j)], eoj)
        g.append(z3.Implies(z3.And(present[j]), exj == eoj))
    step.prove("derive_proc: new procedure joins exactly its origin's class (modulo everything)", hyp, z3.And(*g))

    # ---- queries ------------------------------------------------------------------------
    st, present = sym_state(n, K, "q_")
    pre = inv(st, present)
    pre_rel = {"U": snapshot_rel(st.unv, n), "S": snapshot_rel(st.strict, n), **{k: snapshot_rel(st.keyd.ufs[k], n) for k in range(K)}}
    tracked0 = list(st.keyd.tracked)
    p, q = idvar("q_p"), idvar("q_q")
    Kset = [z3.Bool(f"q_inK{k}") for k in range(K)]
    hyp = pre + [inrange(p, n), inrange(q, n), st.unv.get_present(p), st.unv.get_present(q)]

    def at2(M, a, b):
        r = z3.BoolVal(False)
        for i in range(n):
            for j in range(n):
                r = z3.If(z3.And(a == idv(i), b == idv(j)), M[(i, j)], r)
        return r

    it = Interp(st, unroll)
    res = it.call_function("check_eqv_proc", [p, q, ConfigSet(Kset)], z3.BoolVal(True))
    spec = z3.And(at2(pre_rel["U"], p, q), *[z3.Implies(z3.And(tracked0[k], z3.Not(Kset[k])), at2(pre_rel[k], p, q)) for k in range(K)])
    step.witness("check_eqv_proc", hyp + [B(res)])
    for kind, f in it.unwind_obls:
        step.prove(f"check_eqv_proc: {kind} obligation", hyp, z3.Not(f))
    step.prove("check_eqv_proc answers exactly E_U(p,q) and E_k(p,q) for every tracked k not in K", hyp, B(res) == spec)
    step.prove("check_eqv_proc (path splitting) preserves invariant and relations", hyp, z3.And(*inv(st, present), rel_eq(snapshot_rel(st.unv, n), pre_rel["U"], present), *[z3.Implies(tracked0[k], rel_eq(snapshot_rel(st.keyd.ufs[k], n), pre_rel[k], present)) for k in range(K)]))

    st, present = sym_state(n, K, "g_")
    pre = inv(st, present)
    pre_rel = {"U": snapshot_rel(st.unv, n), **{k: snapshot_rel(st.keyd.ufs[k], n) for k in range(K)}}
    tracked0 = list(st.keyd.tracked)
    p, q = idvar("g_p"), idvar("g_q")
    hyp = pre + [inrange(p, n), inrange(q, n), st.unv.get_present(p), st.unv.get_present(q)]
    it = Interp(st, unroll)
    res = it.call_function("get_strictest_eqv_proc", [p, q], z3.BoolVal(True))
    is_eqv, keys = res
    eu = at2(pre_rel["U"], p, q)
    g = [B(is_eqv) == eu]
    for k in range(K):
        g.append(keys.member[k] == z3.And(eu, tracked0[k], z3.Not(at2(pre_rel[k], p, q))))
    for kind, f in it.unwind_obls:
        step.prove(f"get_strictest_eqv_proc: {kind} obligation", hyp, z3.Not(f))
    step.prove("get_strictest_eqv_proc = (E_U(p,q), {tracked k | not E_k(p,q)} if E_U(p,q) else {})", hyp, z3.And(*g))

    # ---- base case: the empty state satisfies the invariant ------------------------
    st0 = State(n, K)
    step.prove("initial (empty) state satisfies the invariant", [], z3.And(*inv(st0, [z3.BoolVal(False)] * n)))
    step.discharge(timeout_ms, common.ncpu())
    return step


# ---------------------------------------------------------------------------
# concrete side: real module vs reference closure, and translator validation


class P:
    """stand-in procedure object (hashable, weak-referenceable)"""

    def __init__(self, i):
        self.i = i

    def __repr__(self):
        return f"P{self.i}"


def fresh_module():
    import importlib.util

    spec = importlib.util.spec_from_file_location("_proc_eqv_fresh", common.REPO + "/src/exo/core/proc_eqv.py", submodule_search_locations=None)
    mod = importlib.util.module_from_spec(spec)
    mod.__package__ = "exo.core"
    spec.loader.exec_module(mod)
    return mod


class RefModel:
    """reference: per key k the RST closure of recorded steps whose modulo-set does not contain k"""

    def __init__(self):
        self.procs = []
        self.steps = []  # (a, b, frozenset C)
        self.keys_seen = []

    def classes(self, pred):
        parent = {p: p for p in self.procs}

        def f(x):
            while parent[x] != x:
                x = parent[x]
            return x

        for a, b, C in self.steps:
            if pred(C):
                ra, rb = f(a), f(b)
                if ra != rb:
                    parent[rb] = ra
        return f

    def eqv(self, a, b, K):
        f = self.classes(lambda C: True)
        if f(a) != f(b):
            return False
        # connected by steps each disturbing only fields in K: for every key k not in K, connected avoiding steps with k
        allkeys = set()
        for _a, _b, C in self.steps:
            allkeys |= C
        for k in allkeys - set(K):
            fk = self.classes(lambda C, k=k: k not in C)
            if fk(a) != fk(b):
                return False
        return True


def history_search(max_len, nprocs, keys, rng=None, budget=20000):
    """explicit replay of histories through the REAL module against the reference; returns first mismatch or None"""
    ops = []
    for i in range(nprocs):
        ops.append(("decl", i))
    subsets = [frozenset(s) for r in range(len(keys) + 1) for s in itertools.combinations(keys, r)]
    for i in range(nprocs):
        for j in range(nprocs):
            if i != j:
                for C in subsets:
                    ops.append(("assert", i, j, C))
                    ops.append(("derive", i, j, C))
    count = 0
    seen_hist = 0

    def run(hist):
        mod = fresh_module()
        ref = RefModel()
        objs = {}
        for op in hist:
            if op[0] == "decl":
                if op[1] in objs:
                    return "skip", None
                objs[op[1]] = P(op[1])
                mod.decl_new_proc(objs[op[1]])
                ref.procs.append(op[1])
            elif op[0] == "assert":
                _, i, j, C = op
                if i not in objs or j not in objs:
                    return "skip", None
                mod.assert_eqv_proc(objs[i], objs[j], C)
                ref.steps.append((i, j, C))
            else:
                _, i, j, C = op
                if i not in objs or j in objs:
                    return "skip", None
                objs[j] = P(j)
                mod.derive_proc(objs[i], objs[j], C)
                ref.procs.append(j)
                ref.steps.append((i, j, C))
        for a in objs:
            for b in objs:
                for Kq in subsets:
                    got = mod.check_eqv_proc(objs[a], objs[b], Kq)
                    want = ref.eqv(a, b, Kq)
                    if got != want:
                        return "mismatch", {"history": [repr(o) for o in hist], "query": (a, b, sorted(Kq)), "got": got, "want": want}
                ok, ks = mod.get_strictest_eqv_proc(objs[a], objs[b])
                want_ok = ref.eqv(a, b, keys)
                if ok != want_ok:
                    return "mismatch", {"history": [repr(o) for o in hist], "query": ("strictest", a, b), "got": ok, "want": want_ok}
                if ok:
                    want_ks = {k for k in keys if not ref.eqv(a, b, [x for x in keys if x != k])}
                    # only tracked keys can be reported
                    if set(ks) - set(keys) or not (set(ks) <= want_ks | set()):
                        return "mismatch", {"history": [repr(o) for o in hist], "query": ("strictest-keys", a, b), "got": sorted(ks), "want": sorted(want_ks)}
        return "ok", None

    n_ok = 0
    for L in range(1, max_len + 1):
        for hist in itertools.product(ops, repeat=L):
            count += 1
            if count > budget:
                return None, n_ok
            r, info = run(hist)
            if r == "mismatch":
                return info, n_ok
            if r == "ok":
                n_ok += 1
    return None, n_ok


def validate_translator(rng, trials=40, n=4, K=2):
    """random concrete histories through the real module and through py2smt on constants"""
    mism = []
    for t in range(trials):
        mod = fresh_module()
        st = State(n, K)
        objs = {}
        keys = [f"k{k}" for k in range(K)]
        for stepi in range(rng.randint(2, 7)):
            choice = rng.random()
            if choice < 0.4 and len(objs) < n:
                i = rng.choice([i for i in range(n) if i not in objs])
                objs[i] = P(i)
                mod.decl_new_proc(objs[i])
                Interp(st, n).call_function("decl_new_proc", [idv(i)], z3.BoolVal(True))
            elif len(objs) >= 2:
                i, j = rng.sample(sorted(objs), 2)
                Cs = [k for k in range(K) if rng.random() < 0.4]
                mod.assert_eqv_proc(objs[i], objs[j], frozenset(keys[k] for k in Cs))
                Interp(st, n).call_function("assert_eqv_proc", [idv(i), idv(j), ConfigSet([k in Cs for k in range(K)])], z3.BoolVal(True))
        for a in objs:
            for b in objs:
                for r in range(K + 1):
                    for Kq in itertools.combinations(range(K), r):
                        got = mod.check_eqv_proc(objs[a], objs[b], frozenset(keys[k] for k in Kq))
                        st2 = copy_state(st)
                        enc = Interp(st2, n).call_function("check_eqv_proc", [idv(a), idv(b), ConfigSet([k in Kq for k in range(K)])], z3.BoolVal(True))
                        encv = z3.is_true(z3.simplify(B(enc)))
                        if got != encv:
                            mism.append((t, a, b, Kq, got, encv))
    return mism


def api_facts():
    """API-level clauses of C11 on the real Procedure objects (concrete observations, run alongside the inductive
    step): procedures of different origin, or separated by a signature-changing operation (partial_eval,
    transpose, add_assertion), are never reported equivalent; equivalence-preserving steps are (reachability)."""
    import corpus.seeds as S
    from exo.core.proc_eqv import check_eqv_proc, get_strictest_eqv_proc
    from exo.stdlib.scheduling import simplify, rename

    problems = []
    n = 0
    procs = [(nm, p) for nm, p, _t in S.SEEDS if not p.is_instr()]
    # different origins
    for (na, a), (nb, b) in zip(procs[:-1:3], procs[1::3]):
        n += 1
        if check_eqv_proc(a._loopir_proc, b._loopir_proc) or get_strictest_eqv_proc(a._loopir_proc, b._loopir_proc)[0]:
            problems.append(f"{na} and {nb} have different origins but are reported equivalent")
    for nm, p in procs:
        ir = p._loopir_proc
        cands = []
        sizes = [a for a in p.args() if not a.is_tensor() and str(a.type()) in ("ExoType.Size", "size")]
        try:
            from exo.core.LoopIR import T

            ctrl = [(a.name.name(), a.type) for a in ir.args if isinstance(a.type, (T.Size, T.Index, T.Bool))]
        except Exception:
            ctrl = []
        for an, ty in ctrl[:1]:
            from exo.core.LoopIR import T

            val = True if isinstance(ty, T.Bool) else 2
            cands.append(("partial_eval", lambda p=p, an=an, val=val: p.partial_eval(**{an: val})))
        for a in ir.args:
            if a.type.is_tensor_or_window() and len(a.type.shape()) == 2:
                cands.append(("transpose", lambda p=p, an=a.name.name(): p.transpose([c for c in p.args() if c.name() == an][0])))
                break
        for an, ty in ctrl[:1]:
            from exo.core.LoopIR import T

            if isinstance(ty, T.Size):
                cands.append(("add_assertion", lambda p=p, an=an: p.add_assertion(f"{an} > 1")))
        for kind, th in cands:
            try:
                q = th()
            except BaseException:  # noqa
                continue
            n += 1
            if check_eqv_proc(ir, q._loopir_proc) or get_strictest_eqv_proc(ir, q._loopir_proc)[0]:
                problems.append(f"{nm}: the result of {kind} is reported equivalent to the procedure it came from (signature-changing operations start a new class)")
        try:
            q = rename(simplify(p), nm + "_r")
            n += 1
            if not check_eqv_proc(ir, q._loopir_proc):
                problems.append(f"{nm}: simplify+rename is not reported equivalent (reachability of the positive case)")
        except BaseException:  # noqa
            pass
    return n, problems


def run(tier):
    t0 = time.time()
    vseed = seed_from_env()
    rng = random.Random(f"c11-{vseed}")
    rep = Reporter("C11")
    n_api, api_problems = api_facts()
    for pr in api_problems:
        rep.report({"property": "C11", "kind": "api", "detail": pr, "summary": pr, "dedup": pr[:80]})
    n, K = (4, 2) if tier == "quick" else (4, 3)
    errors = []
    # translator validation first
    try:
        mism = validate_translator(rng, trials=40 if tier == "quick" else 200)
    except Py2SmtUnsupported as ex:
        print(f"HARNESS: py2smt cannot encode proc_eqv.py: {ex}")
        return common.EXIT_HARNESS
    if mism:
        print(f"HARNESS: py2smt disagrees with the real module on {len(mism)} concrete queries, e.g. {mism[0]}")
        return common.EXIT_HARNESS
    try:
        step = run_step(n, K)
    except Py2SmtUnsupported as ex:
        print(f"HARNESS: py2smt cannot encode proc_eqv.py: {ex}")
        return common.EXIT_HARNESS
    failed = [(nm, v, info) for nm, v, dt, m, info in step.results if v not in ("unsat", "sat-ok")]
    vacuous = [nm for nm, v, dt, m, info in step.results if v.startswith("VACUOUS")]
    unknown = [nm for nm, v, dt, m, info in step.results if v == "unknown"]
    sat = [(nm, m) for nm, v, dt, m, info in step.results if v == "sat"]
    # explicit histories through the real module (cross-check of the invariant; also replay source)
    hist_len = 3 if tier == "quick" else 4
    mismatch, n_hist = history_search(hist_len, 3, ["ka", "kb"], budget=6000 if tier == "quick" else 80000)
    if mismatch:
        rec = {"property": "C11", "kind": "history", "detail": mismatch, "summary": f"equivalence tracking answers {mismatch['got']} where the closure of the recorded steps says {mismatch['want']}: {mismatch}", "dedup": "history"}
        rep.report(rec)
    if sat and not mismatch:
        # inductive step fails but no short history reproduces it: search deeper before deciding
        mismatch2, n2 = history_search(5, 3, ["ka", "kb"], budget=150000)
        n_hist += n2
        if mismatch2:
            rec = {"property": "C11", "kind": "history", "detail": mismatch2, "summary": f"equivalence tracking: {mismatch2}", "dedup": "history"}
            rep.report(rec)
        else:
            errors.append("inductive step has counterexamples that no explored history reproduces (invariant too weak or a deep defect): " + "; ".join(nm for nm, _m in sat))
    code = rep.finish()
    n_obl = len([r for r in step.results if "witness" not in r[0]])
    n_dis = len([r for r in step.results if r[1] == "unsat"])
    coverage = {
        "states": n_obl,
        "transitions": n_dis,
        "traces_validated_against_impl": n_hist,
        "samples": [{"obligation": nm, "verdict": v, "seconds": dt} for nm, v, dt, m, info in step.results[:40]],
        "evaluations": n_obl,
        "distinct_nontrivial": n_dis,
        "obligations": n_obl,
        "discharged": n_dis,
        "rule": "one obligation = one z3 validity query about one real function of proc_eqv.py executed by py2smt from an arbitrary invariant-satisfying state",
        "procedures_n": n,
        "keys_K": K,
        "unroll": n,
        "solver_s": round(step.solver_s, 2),
        "histories_replayed_on_real_module": n_hist,
        "api_level_queries": n_api,
        "translator_validation": "random concrete histories: real module vs py2smt on constants agreed on every check_eqv_proc query",
        "functions_encoded": ["_UnionFind.new_node", "_UnionFind.find", "_UnionFind.union", "_UnionFind.check_eqv", "_UnionFind.copy_entire_UF", "new_uf_by_eqv_key", "decl_new_proc", "derive_proc", "assert_eqv_proc", "check_eqv_proc", "get_strictest_eqv_proc"],
        "errors": errors,
        "source_hashes": repo_file_hashes(["src/exo/core/proc_eqv.py"]),
        "known_findings_matched": {k: v[1] for k, v in rep.known.items()},
    }
    assumptions = [
        "WeakKeyDictionary modelled as a total finite map (garbage collection of unreachable procedures outside the claim)",
        "procedures n <= 4, keys K <= 3; find's loop unrolled n times with an unwinding obligation",
        "all(genexpr) is evaluated without short-circuiting (the skipped check_eqv calls only perform path splitting, which preserves the relations: proved as a separate obligation)",
        "representation invariant: forests, same node set everywhere, E_S <= E_k <= E_U; proved established by the empty state and preserved by every operation",
    ]
    write_evidence("C11", tier, vseed, "model_checking", coverage, assumptions, time.time() - t0, len(rep.violations))
    print(f"C11 {tier}: {n_dis}/{n_obl} step obligations discharged (n={n}, K={K}), {n_hist} explicit histories replayed on the real module, solver {step.solver_s:.1f}s, {time.time()-t0:.0f}s")
    for nm, v, dt, m, info in step.results:
        if v not in ("unsat", "sat-ok"):
            print(f"   {v}: {nm}")
    if code == 0 and (vacuous or unknown or errors):
        for e in errors:
            print("  ", e)
        return common.EXIT_HARNESS
    return code
