"""C12: simplify preserves the value of every index expression (expression-level
translation validation over unbounded integers)."""
from __future__ import annotations

import hashlib
import importlib.util
import multiprocessing as mp
import os
import random
import sys
import time
import traceback
from collections import Counter

import z3

from . import common
from .common import WORK, Reporter, ncpu, repo_file_hashes, seed_from_env, write_evidence
from .exprtv import AlignFail, LockStep

# ---------------------------------------------------------------------------
# expression pool

HAND = [
    "i", "i + 0", "1 * i", "0 * i + j", "i - i", "i + j", "2 * i + j", "4 * i + j",
    "(4 * i + j) / 4", "(4 * i + j) % 4", "(i + 4 * j) % 4", "(i + 4 * j) / 4",
    "i % 4", "(i % 4) % 4", "(i % 8) % 4", "(i % 4) % 8", "(i / 4) * 4 + i % 4", "i % 4 + 4 * (i / 4)",
    "(i - 3) % 4", "(i - 3) / 4", "(i - 1) / 2", "(i - 1) % 2", "(3 - i) % 4", "(3 - i) / 2", "-i % 4", "(-i) / 2",
    "(i / 2) / 4", "(i / 2) / 2", "(i * 2) / 2", "(i * 4) / 2", "(i * 2) / 4", "(2 * i + 1) / 2", "(2 * i + 1) % 2",
    "(8 * i + 2 * j) / 4", "(8 * i + 2 * j) % 4", "(i + 8) % 4", "(i + 8) / 4", "(i + 3) / 4", "(i + 3) % 4",
    "n - 1 - i", "(n - 1 - i) % 4", "(n + 3) / 4", "n / 4 * 4", "n - n / 4 * 4", "n % 4", "(n - 1) / 4 + 1",
    "k", "k + i", "(k + 4) / 2", "(k + 4) % 2", "(k - 1) / 2", "k % 2", "(k + i) % 4", "(2 * k) / 2", "(2 * k + 1) / 2",
    "i / 4", "(i + j) / 8", "(i + j) % 8", "j % 4", "j / 4", "(j + 4) / 4", "(j + 4) % 4", "j % 2 + 2 * (j / 2)",
    "(i % 4 + 4) % 4", "(i / 4 + 1) * 4 - 4", "i - (i / 4) * 4", "4 * (i / 4) + (i - 4 * (i / 4))",
    "(4 * i) % 4", "(4 * i + 2) % 4", "(4 * i + 2) / 4", "(4 * i - 1) / 4", "(4 * i - 1) % 4",
    "3 * (i / 3) + i % 3", "(3 * i + j) / 3", "(3 * i + j) % 3", "(i + 1) / 1", "(i + 1) % 1",
]


def gen_exprs(rng, n, vars_=("i", "j", "n", "k")):
    out = []

    def g(d):
        if d == 0 or rng.random() < 0.25:
            if rng.random() < 0.75:
                return rng.choice(vars_)
            return str(rng.choice([0, 1, 2, 3, 4]))
        r = rng.random()
        if r < 0.25:
            return f"({g(d-1)} + {g(d-1)})"
        if r < 0.42:
            return f"({g(d-1)} - {g(d-1)})"
        if r < 0.58:
            return f"{rng.choice([-3, -2, -1, 2, 3, 4])} * {g(d-1)}".replace("-", "0 - ", 1) if False else f"({rng.choice([2, 3, 4])} * {g(d-1)})"
        if r < 0.78:
            return f"({g(d-1)} / {rng.choice([2, 3, 4, 8])})"
        if r < 0.96:
            return f"({g(d-1)} % {rng.choice([2, 3, 4, 8])})"
        return f"(0 - {g(d-1)})"

    while len(out) < n:
        e = g(rng.choice([2, 3, 3, 4]))
        if any(v in e for v in vars_):
            out.append(e)
    return out


# contexts: {E} is the expression; loops give i (variant-dependent) and j in [0,4)
LOOPS = [
    ("sym", "for i in seq(0, n):"),
    ("const", "for i in seq(0, 8):"),
    ("lo1", "for i in seq(1, n):"),
    ("lo2c", "for i in seq(2, 6):"),
    ("c4", "for i in seq(0, 4):"),
    ("lo5c", "for i in seq(5, 9):"),
]
FACTS = [
    ("none", None),
    ("lt3", "if i < 3:"),
    ("eq0", "if i == 0:"),
    ("div0", "if i / 4 == 0:"),
    ("jeq1", "if j == 1:"),
]


def make_prog(name, expr, ctx, loop, fact, extra_assert=None):
    """returns source text of one procedure"""
    hdr = f"def {name}(n: size, k: index, x: f32[64], y: f32[64]):\n"
    pre = ["assert n <= 8", "assert k >= -4", "assert k <= 4"]
    if extra_assert:
        pre.append(f"assert {extra_assert}")
    body = []
    ind = "    "
    lines = [ind + p for p in pre]
    lvl = 1
    if ctx == "config":
        # config writes must not depend on loop iterations: no loops
        e = expr.replace("i", "k").replace("j", "n")
        lines.append(ind + f"CfgA.a = {e}")
        lines.append(ind + "x[CfgA.b + 32] = 1.0") if False else None
        lines = [l for l in lines if l]
        lines.append(ind + "y[0] = x[0]")
        return hdr + "\n".join(lines) + "\n"
    lines.append(ind * lvl + loop)
    lvl += 1
    lines.append(ind * lvl + "for j in seq(0, 4):")
    lvl += 1
    if fact:
        lines.append(ind * lvl + fact)
        lvl += 1
    I = ind * lvl
    if ctx == "index":
        lines.append(I + f"y[{expr} + 32] = x[({expr}) + 16] + x[i]")
    elif ctx == "guard":
        lines.append(I + f"if {expr} < n:")
        lines.append(I + ind + "y[i] = 1.0")
        lines.append(I + f"if {expr} == 2 * j:")
        lines.append(I + ind + "y[j] += 2.0")
    elif ctx == "bound":
        lines.append(I + f"for l in seq(0, {expr}):")
        lines.append(I + ind + "y[l] = 0.0")
    elif ctx == "bound_lo":
        lines.append(I + f"for l in seq({expr}, {expr} + 2):")
        lines.append(I + ind + "y[l + 32] = 0.0")
    elif ctx == "alloc":
        lines.append(I + f"t: f32[{expr} + 40]")
        lines.append(I + "t[0] = x[i]")
        lines.append(I + "y[i] = t[0]")
    elif ctx == "window":
        lines.append(I + f"w = x[{expr} + 32:{expr} + 34]")
        lines.append(I + "y[i] = w[0] + w[1]")
    elif ctx == "call":
        lines.append(I + f"c12_callee({expr}, x, y)")
    elif ctx == "shadow":
        lines.append(I + "for i in seq(0, 2):")
        lines.append(I + ind + f"y[{expr} + 32] = 3.0")
        lines.append(I + f"y[{expr} + 32] += x[i]")
    return hdr + "\n".join(lines) + "\n"


SPECIALS = [
    ("c12s_cfg_fact", """def c12s_cfg_fact(x: f32[8]):
    if CfgA.a == 0:
        CfgA.a = 1
        x[CfgA.a] = 1.0
"""),
    ("c12s_cfg_fact2", """def c12s_cfg_fact2(x: f32[8]):
    assert CfgA.b >= 0
    assert CfgA.b < 4
    if CfgA.b == 2:
        x[CfgA.b] = 1.0
        c12_setb()
        x[CfgA.b + 1] = 2.0
"""),
    ("c12s_shadow_guard", """def c12s_shadow_guard(n: size, x: f32[64]):
    assert n <= 8
    for i in seq(0, n):
        if i == 0:
            for i in seq(0, n):
                x[i] = 1.0
"""),
    ("c12s_names", """def c12s_names(n: size, x: f32[64]):
    assert n <= 8
    for i in seq(0, n):
        for i_1 in seq(0, 2):
            if i_1 == 0:
                x[2 * i + i_1] = 1.0
"""),
    ("c12s_negmod", """def c12s_negmod(x: f32[4], y: f32[3]):
    for i in seq(0, 3):
        y[i] = x[(i - 3) % 4]
"""),
    ("c12s_qr", """def c12s_qr(n: size, x: f32[64]):
    assert n <= 8
    for i in seq(0, n):
        x[(i - 2) % 4 + 4 * ((i - 2) / 4) + 2] = 1.0
"""),
    ("c12s_loopdead", """def c12s_loopdead(n: size, x: f32[64]):
    for i in seq(0, n / 16):
        x[i] = 1.0
    for i in seq(3, 3):
        x[i] = 2.0
    if n < 1:
        x[0] = 3.0
"""),
]


CTXS = ["index", "guard", "bound", "bound_lo", "alloc", "window", "call", "shadow", "config"]

MODULE_HEADER = '''from __future__ import annotations
from exo import proc, DRAM
from corpus.seeds import CfgA, CfgB

PROCS = {}
REJ = {}


@proc
def c12_callee(q: index, x: f32[64], y: f32[64]):
    y[0] = x[0]


@proc
def c12_setb():
    CfgA.b = 3


def _reg(name, thunk):
    try:
        PROCS[name] = thunk()
    except BaseException as e:  # rejected by the front end (allowed)
        REJ[name] = type(e).__name__ + ": " + str(e)[:120]

'''


def build_batch(batch_id, specs):
    """specs: list of (name, expr, ctx, loop, fact, extra); returns module"""
    d = WORK / "c12"
    d.mkdir(parents=True, exist_ok=True)
    path = d / f"b_{os.getpid()}_{batch_id}.py"
    parts = [MODULE_HEADER]
    for name, expr, ctx, loop, fact, extra in specs:
        src = expr if ctx == "special" else make_prog(name, expr, ctx, loop, fact, extra)
        ind = "\n".join("    " + l for l in src.splitlines())
        parts.append(f"def _mk_{name}():\n    @proc\n{ind}\n    return {name}\n\n\n_reg('{name}', _mk_{name})\n\n")
    with open(path, "w") as f:
        f.write("".join(parts))
    modname = f"_c12_{os.getpid()}_{batch_id}"
    spec = importlib.util.spec_from_file_location(modname, path)
    mod = importlib.util.module_from_spec(spec)
    sys.modules[modname] = mod
    try:
        spec.loader.exec_module(mod)
    finally:
        sys.modules.pop(modname, None)
        try:
            os.unlink(path)
        except OSError:
            pass
    return mod


# ---------------------------------------------------------------------------
# solver-free evaluation of z3 integer terms (replay)


def py_eval(t, asg):
    if z3.is_int_value(t):
        return t.as_long()
    if z3.is_true(t):
        return True
    if z3.is_false(t):
        return False
    if z3.is_const(t):
        return asg[str(t)]
    k = t.decl().kind()
    ch = [py_eval(c, asg) for c in t.children()]
    if k == z3.Z3_OP_ADD:
        return sum(ch)
    if k == z3.Z3_OP_SUB:
        r = ch[0]
        for c in ch[1:]:
            r -= c
        return r
    if k == z3.Z3_OP_UMINUS:
        return -ch[0]
    if k == z3.Z3_OP_MUL:
        r = 1
        for c in ch:
            r *= c
        return r
    if k in (z3.Z3_OP_IDIV, z3.Z3_OP_DIV):
        a, b = ch
        if b == 0:
            raise ZeroDivisionError
        q = a // b if b > 0 else -(a // -b)
        return q
    if k == z3.Z3_OP_MOD:
        a, b = ch
        if b == 0:
            raise ZeroDivisionError
        return a % abs(b)
    if k == z3.Z3_OP_LT:
        return ch[0] < ch[1]
    if k == z3.Z3_OP_LE:
        return ch[0] <= ch[1]
    if k == z3.Z3_OP_GT:
        return ch[0] > ch[1]
    if k == z3.Z3_OP_GE:
        return ch[0] >= ch[1]
    if k == z3.Z3_OP_EQ:
        return ch[0] == ch[1]
    if k == z3.Z3_OP_DISTINCT:
        return ch[0] != ch[1]
    if k == z3.Z3_OP_AND:
        return all(ch)
    if k == z3.Z3_OP_OR:
        return any(ch)
    if k == z3.Z3_OP_NOT:
        return not ch[0]
    if k == z3.Z3_OP_ITE:
        return ch[1] if ch[0] else ch[2]
    raise ValueError(f"py_eval: {t.decl()}")


def vars_of(ts):
    seen = {}
    stack = list(ts)
    visited = set()
    while stack:
        t = stack.pop()
        if t.get_id() in visited:
            continue
        visited.add(t.get_id())
        if z3.is_const(t) and t.decl().kind() == z3.Z3_OP_UNINTERPRETED:
            seen[str(t)] = t
        stack.extend(t.children())
    return seen


def decide(obls, timeout_ms=20000):
    """returns (violations, n_unsat, n_unknown, solver_s); each violation = dict"""
    viol = []
    n_unsat = n_unknown = 0
    t_s = 0.0
    s = z3.Solver()
    s.set("timeout", timeout_ms)
    for o in obls:
        s.push()
        s.add(*o.pc)
        s.add(o.formula)
        t0 = time.time()
        r = s.check()
        t_s += time.time() - t0
        if r == z3.unsat:
            n_unsat += 1
        elif r == z3.unknown:
            n_unknown += 1
        else:
            m = s.model()
            vs = vars_of(list(o.pc) + [o.formula])
            asg = {}
            for nm, v in vs.items():
                val = m.eval(v, model_completion=True)
                asg[nm] = z3.is_true(val) if z3.is_bool(v) else val.as_long()
            # replay without the solver
            try:
                pc_ok = all(py_eval(c, asg) for c in o.pc)
                bad = py_eval(o.formula, asg)
            except ZeroDivisionError:
                pc_ok, bad = False, False
            if pc_ok and bad:
                d = {"kind": o.kind, "where": o.where, "old": o.old_txt, "new": o.new_txt, "assignment": asg}
                if o.old is not None:
                    d["old_value"] = py_eval(o.old, asg)
                    d["new_value"] = py_eval(o.new, asg)
                viol.append(d)
            else:
                n_unknown += 1
        s.pop()
    return viol, n_unsat, n_unknown, t_s


# ---------------------------------------------------------------------------


def _work(job):
    devnull = os.open(os.devnull, os.O_WRONLY)
    saved = os.dup(1)
    os.dup2(devnull, 1)
    try:
        return _work_inner(job)
    except BaseException as ex:  # noqa
        return {"results": [], "errors": [f"worker crashed: {type(ex).__name__}: {ex}", traceback.format_exc()[-1500:]], "rejected": 0}
    finally:
        os.dup2(saved, 1)
        os.close(devnull)
        os.close(saved)


def check_pair(p, q, tag):
    """lock-step obligations for one (p, simplify(p)) pair"""
    res = {"name": tag, "status": "ok"}
    ls = LockStep(p._loopir_proc, q._loopir_proc)
    try:
        obls = ls.run()
    except AlignFail as ex:
        res["status"] = "align_failed"
        res["why"] = str(ex)
        return res
    viol, n_unsat, n_unknown, t_s = decide(obls)
    res.update(pairs=ls.npairs, obligations=len(obls), unsat=n_unsat, unknown=n_unknown, solver_s=round(t_s, 3), violations=viol)
    return res


def _work_inner(job):
    from exo.stdlib.scheduling import simplify
    from .sweep import with_watchdog

    out = {"results": [], "errors": [], "rejected": 0}
    if job["kind"] == "generated":
        mod = build_batch(job["batch"], job["specs"])
        out["rejected"] = len(mod.REJ)
        out["rej_samples"] = list(mod.REJ.items())[:3]
        spec_by_name = {s[0]: s for s in job["specs"]}
        for name, p in mod.PROCS.items():
            try:
                q = with_watchdog(lambda: simplify(p))
            except BaseException as ex:  # noqa
                out["results"].append({"name": name, "status": "simplify_raised", "why": f"{type(ex).__name__}: {str(ex)[:200]}", "spec": spec_by_name[name][1:]})
                continue
            r = check_pair(p, q, name)
            r["spec"] = spec_by_name[name][1:]
            r["p_src"] = str(p)
            r["q_src"] = str(q)
            out["results"].append(r)
    else:
        import corpus.seeds as S
        from . import sched_enum as SE
        from .sweep import apply_op, load_env, dec_arg

        env = load_env()
        for name in job["seeds"]:
            p = S.by_name(name)
            variants = [("as_written", p)]
            # derived procedures whose index expressions need normalisation
            rng = random.Random(f"{job['rngseed']}-{name}")
            ops = SE.all_ops()
            for opname in ("divide_loop", "cut_loop", "shift_loop", "mult_loops", "divide_dim", "expand_dim", "stage_mem", "unroll_loop", "add_loop", "divide_with_recompute", "specialize", "fission", "resize_dim"):
                try:
                    cands = SE.candidates(p, opname, ops[opname], env, rng, 3)
                except Exception:
                    continue
                for args in cands:
                    q, ex, _ = apply_op(ops[opname], p, list(args))
                    if q is not None:
                        variants.append((f"{opname}{SE.describe_arg(list(args))}", q))
            for vn, pv in variants:
                try:
                    q = with_watchdog(lambda: simplify(pv))
                except BaseException as ex:  # noqa
                    out["results"].append({"name": f"{name}:{vn}", "status": "simplify_raised", "why": f"{type(ex).__name__}: {str(ex)[:200]}"})
                    continue
                r = check_pair(pv, q, f"{name}:{vn}")
                r["p_src"] = str(pv)
                r["q_src"] = str(q)
                r["spec"] = ["corpus", name, vn]
                out["results"].append(r)
    return out


def tight_exprs():
    out = []
    for d in (4,):
        for a in (-4, -1, 1, 4):
            for b in (0, 1):
                for c in (-5, -4, -1, 0, 1, 3, 4, 5):
                    terms = []
                    if a == 1:
                        terms.append("i")
                    elif a == -1:
                        terms.append("0 - i")
                    elif a < 0:
                        terms.append(f"0 - {-a} * i")
                    else:
                        terms.append(f"{a} * i")
                    if b:
                        terms.append("j")
                    e = " + ".join(terms)
                    if c > 0:
                        e = f"{c} + {e}" if a < 0 else f"{e} + {c}"
                    elif c < 0:
                        e = f"{e} - {-c}"
                    for op in ("/", "%"):
                        out.append(f"({e}) {op} {d}")
                        if c in (-1, 1, 4, 5):
                            out.append(f"({e}) {op} {d} + 1")
    # the forms c - i with c a multiple of d, and quotient + remainder recombinations with offsets
    out += ["(4 - i) / 4", "(4 - i) % 4", "(8 - i) / 4", "(8 - 2 * i) / 4", "(5 - i) / 4 + 1", "(0 - i) % 4", "(0 - i) / 4", "(12 - i - j) / 4",
            "(i - 1) % 4 + 4 * ((i - 1) / 4)", "(i + 5) % 4 + 4 * ((i + 5) / 4)", "4 * ((i - 5) / 4) + (i - 5) % 4 + 8"]
    return out


def plan(tier, vseed):
    rng = random.Random(f"c12-{vseed}")
    exprs = list(HAND)
    if tier == "quick":
        exprs = [e for k, e in enumerate(HAND) if k % 2 == vseed % 2] + gen_exprs(rng, 40)
        nctx = 3
    else:
        exprs = list(HAND) + gen_exprs(rng, 400)
        nctx = len(CTXS)
    specs = []
    k = 0
    for e in exprs:
        ctxs = rng.sample(CTXS, nctx) if nctx < len(CTXS) else CTXS
        for ctx in ctxs:
            loop = rng.choice(LOOPS)[1]
            fact = rng.choice(FACTS)[1]
            extra = rng.choice([None, None, "n % 4 == 0", "n >= 2"])
            specs.append((f"c12_{k}", e, ctx, loop, fact, extra))
            k += 1
    specs += [(nm, src, "special", None, None, None) for nm, src in SPECIALS]
    # tight grid (always complete): (a*i + b*j + c) op d for every sign of the coefficient and every constant
    # around the multiples of d, under each loop shape (zero / non-zero, literal / symbolic lower bound).
    # These are the shapes division_simplification / modulo_simplification and the range analysis must get
    # exactly right: negative constants with a non-zero lower bound, negated variables, constants >= d.
    for tg in tight_exprs():
        for lname, loop in LOOPS:
            specs.append((f"c12_{k}", tg, "index", loop, None, None))
            k += 1
    jobs = []
    B = 25
    for b in range(0, len(specs), B):
        jobs.append({"kind": "generated", "batch": b // B, "specs": specs[b : b + B]})
    from .check_sweep import seed_names

    names = seed_names()
    if tier == "quick":
        pass  # quick also covers every seed
    for b in range(0, len(names), 3):
        jobs.append({"kind": "corpus", "seeds": names[b : b + 3], "rngseed": vseed})
    return jobs, len(specs)


def run(tier):
    t0 = time.time()
    vseed = seed_from_env()
    jobs, nspecs = plan(tier, vseed)
    ctx = mp.get_context("fork")
    with ctx.Pool(ncpu(), maxtasksperchild=8) as pool:
        outs = pool.map(_work, jobs, chunksize=1)
    rep = Reporter("C12")
    stats = Counter()
    samples = []
    errors = []
    solver_s = 0.0
    for o in outs:
        errors += o.get("errors", [])
        stats["rejected_by_frontend"] += o.get("rejected", 0)
        for r in o["results"]:
            stats["programs"] += 1
            stats[r["status"]] += 1
            if r["status"] != "ok":
                continue
            stats["pairs"] += r["pairs"]
            stats["obligations"] += r["obligations"]
            stats["unsat"] += r["unsat"]
            stats["unknown"] += r["unknown"]
            solver_s += r["solver_s"]
            if r["obligations"]:
                stats["nontrivial_programs"] += 1
            for v in r["violations"]:
                rec = {"property": "C12", "op": "simplify", "program": r["name"], "spec": r.get("spec"), "p_src": r.get("p_src"), "q_src": r.get("q_src"), "kind": v["kind"], "where": v["where"],
                       "old": v["old"], "new": v["new"], "assignment": v["assignment"], "old_value": v.get("old_value"), "new_value": v.get("new_value"),
                       "summary": f"simplify: {v['old']} -> {v['new']} at {v['where']} differs for {v['assignment']}", "dedup": f"{v['old']}|{v['new']}"}
                rep.report(rec)
            if len(samples) < 5 and r["obligations"]:
                samples.append({"program": r["name"], "spec": r.get("spec"), "pairs": r["pairs"], "obligations": r["obligations"], "simplified": (r.get("q_src") or "")[:500]})
    code = rep.finish()
    coverage = {
        "programs": stats["programs"],
        "disagreements_checked": len(rep.violations) + sum(v[1] for v in rep.known.values()),
        "samples": samples or [{"note": "none"}],
        "evaluations": stats["pairs"],
        "distinct_nontrivial": stats["obligations"],
        "rule": "one evaluation = one pair of corresponding control expressions (old, simplified); non-trivial = the pair is not syntactically identical, so a z3 query PC /\\ old != new over unbounded integers was posed",
        "status_counts": dict(stats),
        "generated_specs": nspecs,
        "solver_s": round(solver_s, 2),
        "errors": errors[:10],
        "bounds": "unbounded integers; expression shapes: hand-written pool + grammar depth <= 4, divisors {2,3,4,8}; contexts " + ",".join(CTXS),
        "source_hashes": repo_file_hashes(["src/exo/rewrite/LoopIR_scheduling.py", "src/exo/rewrite/range_analysis.py"]),
        "known_findings_matched": {k: v[1] for k, v in rep.known.items()},
    }
    assumptions = [
        "path conditions (enclosing loop ranges, guards and their negations, assertions, sizes >= 1) are collected by the checker, not taken from Exo's analyses",
        "configuration reads are versioned: a write binds the new version to the written value, writes inside branches/loops/callees give an unconstrained fresh version",
        "programs whose structure cannot be aligned are counted as align_failed (whole-procedure equivalence is C01's job) and never as passes",
    ]
    write_evidence("C12", tier, vseed, "translation_validation", coverage, assumptions, time.time() - t0, len(rep.violations))
    print(f"C12 {tier}: {stats['programs']} programs ({stats['rejected_by_frontend']} more rejected by the front end), {stats['pairs']} expression pairs, {stats['obligations']} queries, unknown={stats['unknown']}, align_failed={stats['align_failed']}, {time.time()-t0:.0f}s")
    if errors:
        for e in errors[:3]:
            print("  worker error:", e[:300])
    if code == 0 and (stats["unknown"] > 0.2 * max(1, stats["obligations"]) or stats["align_failed"] > 0.3 * max(1, stats["programs"]) or stats["programs"] < 10 or errors):
        return common.EXIT_HARNESS
    return code
