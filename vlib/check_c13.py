"""C13: range analysis bounds contain every attainable value.

L1  CrossHair (symbolic execution of the real IndexRange / index_range_analysis /
    constant_bound code, z3 behind it) per expression shape.
L2  every claim the analysis makes in context (check_expr_bound(s) returning True
    while compiling / simplifying corpus procedures; infer_range results of the
    user-level mirror) is discharged by z3 over unbounded integers under the
    checker's own account of the variable ranges.
"""
from __future__ import annotations

import itertools
import multiprocessing as mp
import os
import random
import re
import subprocess
import sys
import time
import traceback
from collections import Counter

import z3

from . import common
from .common import ROOT, WORK, Reporter, ncpu, repo_file_hashes, seed_from_env, write_evidence

PRELUDE = '''from __future__ import annotations
from typing import Optional
from exo.core.LoopIR import LoopIR, T
from exo.core.prelude import Sym, SrcInfo
from exo.rewrite.range_analysis import IndexRange, index_range_analysis, constant_bound

# harness-side rebinding of the same function objects (CrossHair's contract
# enforcement crashes on plain functions stored in a dataclass namespace)
for _n in ("create_unbounded", "create_int", "create_constant_range"):
    if not isinstance(IndexRange.__dict__[_n], staticmethod):
        setattr(IndexRange, _n, staticmethod(IndexRange.__dict__[_n]))
SI = SrcInfo("c13", 0)
X, Y, Z = Sym("x"), Sym("y"), Sym("z")


def rd(s):
    return LoopIR.Read(s, [], T.index, SI)


def cn(v):
    return LoopIR.Const(v, T.int, SI)


def bop(op, a, b):
    return LoopIR.BinOp(op, a, b, T.index, SI)


def neg(a):
    return LoopIR.USub(a, T.index, SI)


def ev(e, val):
    if isinstance(e, LoopIR.Const):
        return e.val
    if isinstance(e, LoopIR.Read):
        return val[e.name]
    if isinstance(e, LoopIR.USub):
        return -ev(e.arg, val)
    a, b = ev(e.lhs, val), ev(e.rhs, val)
    if e.op == "+":
        return a + b
    if e.op == "-":
        return a - b
    if e.op == "*":
        return a * b
    if e.op == "/":
        return a // b
    if e.op == "%":
        return a % b
    raise ValueError(e.op)


def holds(r, e, val):
    v = ev(e, val)
    if isinstance(r, int):
        return r == v
    b = ev(r.base, val)
    return (r.lo is None or b + r.lo <= v) and (r.hi is None or v <= b + r.hi)


def cb_holds(r, e, val):
    v = ev(e, val)
    return (r[0] is None or r[0] <= v) and (r[1] is None or v <= r[1])

'''

KS = (-3, -1, 2)
DS = (1, 2, 3, 8)


def gen_shapes(depth):
    """structural shapes as python expression templates; K/D placeholders are
    concretised inside the harness function by loops over KS / DS"""
    leaves = ["rd(X)", "rd(Y)", "cn(a)", "rd(Z)"]
    levels = [list(leaves)]
    for d in range(1, depth):
        prev = [s for lv in levels for s in lv]
        cur = []
        for s in prev:
            cur.append(f'bop("*", cn(K), {s})')
            cur.append(f'bop("/", {s}, cn(D))')
            cur.append(f'bop("%", {s}, cn(D))')
            cur.append(f"neg({s})")
        for s, t in itertools.product(prev, prev):
            cur.append(f'bop("+", {s}, {t})')
            cur.append(f'bop("-", {s}, {t})')
        levels.append(cur)
    out = []
    seen = set()
    for lv in levels:
        for s in lv:
            if s not in seen and ("X" in s or "Z" in s):
                seen.add(s)
                out.append(s)
    return out


def harness_fn(idx, shape, mode):
    """mode: 'ira' (index_range_analysis) | 'cb' (constant_bound) | 'twin'"""
    uses_k = "K" in shape
    uses_d = "D" in shape
    name = f"shape_{idx}_{mode}"
    lines = [f"def {name}(xlo: Optional[int], xhi: Optional[int], zlo: Optional[int], zhi: Optional[int], x: int, y: int, z: int, a: int, b: int) -> bool:"]
    lines.append('    """')
    lines.append("    pre: (xlo is None or xlo <= x) and (xhi is None or x <= xhi)")
    lines.append("    pre: (zlo is None or zlo <= z) and (zhi is None or z <= zhi)")
    lines.append("    post: not _" if mode == "twin" else "    post: _")
    lines.append('    """')
    lines.append("    ok = True")
    ind = "    "
    if uses_k:
        lines.append(ind + f"for K in {KS if mode != 'twin' else (2,)}:")
        ind += "    "
    if uses_d:
        lines.append(ind + f"for D in {DS if mode != 'twin' else (2,)}:")
        ind += "    "
    lines.append(ind + f"e = {shape}")
    env = "{X: (xlo, xhi), Z: (zlo, zhi)}"
    val = "{X: x, Y: y, Z: z}"
    if mode == "cb":
        lines.append(ind + f"r = constant_bound(e, {env})")
        lines.append(ind + f"ok = ok and cb_holds(r, e, {val})")
    else:
        lines.append(ind + f"r = index_range_analysis(e, {env})")
        lines.append(ind + f"ok = ok and holds(r, e, {val})")
    lines.append("    return ok")
    return name, "\n".join(lines) + "\n\n\n"


JOIN_FNS = '''
def join_contains(alo: Optional[int], ahi: Optional[int], blo: Optional[int], bhi: Optional[int], v: int) -> bool:
    """
    pre: ((alo is None or alo <= v) and (ahi is None or v <= ahi)) or ((blo is None or blo <= v) and (bhi is None or v <= bhi))
    post: _
    """
    r = IndexRange.create_constant_range(alo, ahi) | IndexRange.create_constant_range(blo, bhi)
    return (r.lo is None or r.lo <= v) and (r.hi is None or v <= r.hi)


def partial_eval_contains(xlo: Optional[int], xhi: Optional[int], x: int, y: int, a: int) -> bool:
    """
    pre: (xlo is None or xlo <= x) and (xhi is None or x <= xhi)
    post: _
    """
    ok = True
    for K in (-2, 1, 3):
        e = bop("+", bop("*", cn(K), rd(X)), bop("+", rd(Y), cn(a)))
        r0 = index_range_analysis(e, {})
        r = r0.partial_eval_with_range(X, IndexRange.create_constant_range(xlo, xhi))
        ok = ok and holds(r, e, {X: x, Y: y})
    return ok

'''


def write_harness_files(shapes, nfiles, twin_every, rng):
    d = WORK / "c13"
    d.mkdir(parents=True, exist_ok=True)
    files = []
    per = [[] for _ in range(nfiles)]
    for k, (idx, sh) in enumerate(shapes):
        per[k % nfiles].append((idx, sh))
    for fi, group in enumerate(per):
        if not group:
            continue
        path = d / f"ch_c13_{fi}.py"
        fn_lines = {}
        src = PRELUDE
        for idx, sh in group:
            modes = ["ira", "cb"] if ("Y" not in sh) else ["ira"]
            if idx % twin_every == 0:
                modes.append("twin")
            for m in modes:
                name, text = harness_fn(idx, sh, m)
                fn_lines[name] = src.count("\n") + 1
                src += text
        if fi == 0:
            for nm in ("join_contains", "partial_eval_contains"):
                pass
            base = src.count("\n")
            src += JOIN_FNS
            for m in re.finditer(r"^def (\w+)\(", JOIN_FNS, flags=re.M):
                fn_lines[m.group(1)] = base + JOIN_FNS[: m.start()].count("\n") + 1
        with open(path, "w") as f:
            f.write(src)
        files.append((str(path), fn_lines))
    return files


def run_crosshair(path, per_cond_timeout, wall_timeout):
    env = dict(os.environ)
    env["PYTHONPATH"] = common.REPO + "/src" + (":" + env["PYTHONPATH"] if env.get("PYTHONPATH") else "")
    cmd = [str(ROOT / ".venv/bin/crosshair"), "check", "--report_all", "--per_condition_timeout", str(per_cond_timeout), path]
    try:
        p = subprocess.run(cmd, capture_output=True, text=True, timeout=wall_timeout, env=env)
        return p.stdout + p.stderr, False
    except subprocess.TimeoutExpired as ex:
        return (ex.stdout or b"").decode() if isinstance(ex.stdout, bytes) else (ex.stdout or ""), True


def ensure_venv():
    if not (ROOT / ".venv/bin/crosshair").exists():
        subprocess.run([str(ROOT / "setup.sh")], check=False)
    return (ROOT / ".venv/bin/crosshair").exists()


def parse_output(out, fn_lines):
    """-> dict fn -> ('confirmed'|'refuted'|'inconclusive', message)"""
    by_line = {}
    for fn, ln in fn_lines.items():
        by_line[ln] = fn
    res = {}
    lines_sorted = sorted(by_line)
    for line in out.splitlines():
        m = re.match(r"^(.*?):(\d+): (info|error|warning): (.*)$", line)
        if not m:
            continue
        ln = int(m.group(2))
        # attribute to the function whose def line is the closest at or before ln
        cands = [l for l in lines_sorted if l <= ln]
        if not cands:
            continue
        fn = by_line[cands[-1]]
        msg = m.group(4)
        if "Confirmed over all paths" in msg:
            res[fn] = ("confirmed", msg)
        elif msg.startswith("false when calling") or "when calling" in msg:
            res[fn] = ("refuted", msg)
        else:
            res.setdefault(fn, ("inconclusive", msg))
    return res


def replay_call(path, msg):
    """re-run the harness function as plain Python with the reported arguments"""
    m = re.search(r"when calling (\w+)\((.*?)\)(?: \(which returns|\s*$)", msg)
    if not m:
        return None, "cannot parse counterexample"
    fn, args = m.group(1), m.group(2)
    code = f"import importlib.util,sys\nspec=importlib.util.spec_from_file_location('h', {path!r})\nmod=importlib.util.module_from_spec(spec)\nspec.loader.exec_module(mod)\nprint('RESULT', mod.{fn}({args}))\n"
    env = dict(os.environ)
    env["PYTHONPATH"] = common.REPO + "/src"
    p = subprocess.run(["/venv/bin/python", "-c", code], capture_output=True, text=True, env=env, timeout=120)
    if "RESULT False" in p.stdout:
        return True, f"{fn}({args}) returns False"
    if "RESULT True" in p.stdout:
        return False, f"{fn}({args}) returns True when run concretely"
    return None, (p.stdout + p.stderr)[-300:]


# ---------------------------------------------------------------------------
# L2: claims in context


def _binders(proc):
    from exo.core.LoopIR import LoopIR, T

    loops = {}

    def rec(stmts):
        for s in stmts:
            if isinstance(s, LoopIR.For):
                loops[s.iter] = s
            for attr in ("body", "orelse"):
                if hasattr(s, attr):
                    rec(getattr(s, attr))

    rec(proc.body)
    return loops


def _claim_formula(proc, exprs):
    """z3 terms for exprs and the checker's own constraints on every symbol they mention"""
    from exo.core.LoopIR import LoopIR, T
    from .exprtv import Enc

    enc = Enc()
    loops = _binders(proc)
    cons = []
    seen = set()

    def syms(e, out):
        if isinstance(e, LoopIR.Read):
            out.add(e.name)
        for attr in ("lhs", "rhs", "arg"):
            if hasattr(e, attr):
                syms(getattr(e, attr), out)
        return out

    argtypes = {a.name: a.type for a in proc.args}

    def constrain(sym):
        if sym in seen:
            return
        seen.add(sym)
        if sym in loops:
            lp = loops[sym]
            v = enc.var(sym)
            cons.append(v >= enc.e(lp.lo))
            cons.append(v < enc.e(lp.hi))
            for s2 in syms(lp.lo, set()) | syms(lp.hi, set()):
                constrain(s2)
        elif sym in argtypes and isinstance(argtypes[sym], T.Size):
            cons.append(enc.var(sym) >= 1)

    terms = []
    for e in exprs:
        if isinstance(e, int):
            terms.append(z3.IntVal(e))
        else:
            for s in syms(e, set()):
                constrain(s)
            terms.append(enc.e(e))
    for p in proc.preds:
        try:
            cons.append(enc.e(p))
        except Exception:
            pass
    return terms, cons


def _l2_work(job):
    devnull = os.open(os.devnull, os.O_WRONLY)
    saved = os.dup(1)
    os.dup2(devnull, 1)
    try:
        return _l2_inner(job)
    except BaseException as ex:  # noqa
        return {"claims": 0, "violations": [], "unknown": 0, "errors": [f"{type(ex).__name__}: {ex}", traceback.format_exc()[-1200:]], "samples": []}
    finally:
        os.dup2(saved, 1)
        os.close(devnull)
        os.close(saved)


def _l2_inner(job):
    import corpus.seeds as S
    import exo.rewrite.range_analysis as RA
    from exo.stdlib.scheduling import simplify
    from .exprtv import AlignFail
    from .check_c12 import py_eval, vars_of

    log = []
    orig1 = RA.IndexRangeEnvironment.check_expr_bound
    orig2 = RA.IndexRangeEnvironment.check_expr_bounds

    def w1(self, e0, op, e1):
        r = orig1(self, e0, op, e1)
        if r:
            log.append((self.proc, [(e0, op, e1)]))
        return r

    def w2(self, e0, op0, e1, op1, e2):
        r = orig2(self, e0, op0, e1, op1, e2)
        if r:
            log.append((self.proc, [(e0, op0, e1), (e1, op1, e2)]))
        return r

    RA.IndexRangeEnvironment.check_expr_bound = w1
    RA.IndexRangeEnvironment.check_expr_bounds = w2
    out = {"claims": 0, "violations": [], "unknown": 0, "errors": [], "samples": [], "range_claims": 0}
    procs = []
    for name in job["seeds"]:
        p = S.by_name(name)
        procs.append((name, p))
        # derived variants that exercise division/modulo range reasoning
        from exo.stdlib.scheduling import divide_loop

        for lp in [c for c in __import__("vlib.sched_enum", fromlist=["x"]).stmt_cursors(p) if type(c).__name__ == "ForCursor"][:2]:
            for tail in ("guard", "cut"):
                try:
                    procs.append((f"{name}:divide_loop({lp.name()},{tail})", divide_loop(p, lp, 4, ["vo", "vi"], tail=tail)))
                except BaseException:  # noqa
                    pass
    for name, p in procs:
        for action in ("compile", "simplify"):
            del log[:]
            try:
                if action == "compile":
                    p.c_code_str()
                else:
                    simplify(p)
            except BaseException:  # noqa
                pass
            for proc, rels in log:
                for e0, op, e1 in rels:
                    out["claims"] += 1
                    try:
                        (t0, t1), cons = _claim_formula(proc, [e0, e1])
                    except (AlignFail, Exception) as ex:
                        out["unknown"] += 1
                        continue
                    claim = {"<": t0 < t1, "<=": t0 <= t1, "==": t0 == t1}[op]
                    s = z3.Solver()
                    s.set("timeout", 10000)
                    s.add(*cons)
                    s.add(z3.Not(claim))
                    r = s.check()
                    if r == z3.unknown:
                        out["unknown"] += 1
                    elif r == z3.sat:
                        m = s.model()
                        vs = vars_of(cons + [claim])
                        asg = {nm: (z3.is_true(m.eval(v, model_completion=True)) if z3.is_bool(v) else m.eval(v, model_completion=True).as_long()) for nm, v in vs.items()}
                        try:
                            ok = all(py_eval(c, asg) for c in cons) and not py_eval(claim, asg)
                        except ZeroDivisionError:
                            ok = False
                        if ok:
                            out["violations"].append({"program": name, "during": action, "claim": f"{e0} {op} {e1}", "assignment": asg, "src": str(proc)[:800]})
                        else:
                            out["unknown"] += 1
                    if len(out["samples"]) < 2:
                        out["samples"].append({"program": name, "during": action, "claim": f"{e0} {op} {e1}", "verdict": str(r)})
        # user-level mirror: infer_range on every index expression cursor
        try:
            from exo.stdlib.range_analysis import infer_range
            import exo.API_cursors as PC
            from . import sched_enum as SE

            for sc in SE.stmt_cursors(p):
                idxs = []
                if isinstance(sc, (PC.AssignCursor, PC.ReduceCursor)):
                    idxs += list(sc.idx())
                for ic_ in idxs:
                    # scope: the outermost enclosing loop
                    anc = sc
                    top = None
                    while True:
                        anc = anc.parent()
                        if isinstance(anc, PC.InvalidCursor):
                            break
                        if isinstance(anc, PC.ForCursor):
                            top = anc
                    if top is None:
                        continue
                    try:
                        rng_ = infer_range(ic_, top)
                    except BaseException:  # noqa
                        continue
                    out["range_claims"] += 1
                    e = ic_._impl._node
                    proc = p._loopir_proc
                    try:
                        (te, tb), cons = _claim_formula(proc, [e, rng_.base])
                    except Exception:
                        out["unknown"] += 1
                        continue
                    parts = []
                    if rng_.lo is not None:
                        parts.append(tb + rng_.lo <= te)
                    if rng_.hi is not None:
                        parts.append(te <= tb + rng_.hi)
                    if not parts:
                        continue
                    claim = z3.And(*parts)
                    s = z3.Solver()
                    s.set("timeout", 10000)
                    s.add(*cons)
                    s.add(z3.Not(claim))
                    r = s.check()
                    if r == z3.unknown:
                        out["unknown"] += 1
                    elif r == z3.sat:
                        m = s.model()
                        vs = vars_of(cons + [claim])
                        asg = {nm: m.eval(v, model_completion=True).as_long() for nm, v in vs.items() if not z3.is_bool(v)}
                        try:
                            ok = all(py_eval(c, asg) for c in cons) and not py_eval(claim, asg)
                        except (ZeroDivisionError, KeyError):
                            ok = False
                        if ok:
                            out["violations"].append({"program": name, "during": "infer_range", "claim": f"{e} in {rng_}", "assignment": asg, "src": str(p)[:800]})
                        else:
                            out["unknown"] += 1
        except Exception as ex:
            out["errors"].append(f"infer_range on {name}: {type(ex).__name__}: {ex}")
    RA.IndexRangeEnvironment.check_expr_bound = orig1
    RA.IndexRangeEnvironment.check_expr_bounds = orig2
    return out


# ---------------------------------------------------------------------------


def run(tier):
    t0 = time.time()
    vseed = seed_from_env()
    rng = random.Random(f"c13-{vseed}")
    rep = Reporter("C13")
    stats = Counter()
    errors = []
    samples = []
    # ---- L1 ------------------------------------------------------------------
    if not ensure_venv():
        print("HARNESS: CrossHair overlay venv could not be built")
        return common.EXIT_HARNESS
    shapes2 = gen_shapes(2)
    shapes3 = [s for s in gen_shapes(3) if s not in set(shapes2)]
    if tier == "quick":
        rng.shuffle(shapes3)
        chosen = shapes2 + shapes3[:40]
        per_cond, twin_every = 15, 7
    else:
        rng.shuffle(shapes3)
        chosen = shapes2 + shapes3[:400]
        per_cond, twin_every = 40, 5
    shapes = list(enumerate(chosen))
    nfiles = ncpu()
    files = write_harness_files(shapes, nfiles, twin_every, rng)
    nconds = sum(len(fl) for _p, fl in files)
    wall = per_cond * max(len(fl) for _p, fl in files) + 120
    with mp.get_context("fork").Pool(nfiles) as pool:
        outs = pool.starmap(run_crosshair, [(p, per_cond, wall) for p, _fl in files])
    ch_s = time.time() - t0
    for (path, fn_lines), (out, timed_out) in zip(files, outs):
        res = parse_output(out, fn_lines)
        if timed_out:
            errors.append(f"{path}: crosshair wall timeout")
        for fn in fn_lines:
            st, msg = res.get(fn, ("inconclusive", "no verdict reported"))
            is_twin = fn.endswith("_twin")
            if is_twin:
                stats["twins"] += 1
                if st == "refuted":
                    stats["twins_reachable"] += 1
                else:
                    stats["twins_unreached"] += 1
                    errors.append(f"reachability twin {fn} not refuted: {st} {msg[:80]}")
                continue
            stats["conditions"] += 1
            stats["l1_" + st] += 1
            if st == "refuted":
                ok, desc = replay_call(path, msg)
                if ok:
                    shape_idx = int(fn.split("_")[1]) if fn.startswith("shape_") else -1
                    rec = {"property": "C13", "layer": "L1", "function": fn, "shape": chosen[shape_idx] if shape_idx >= 0 else fn, "message": msg, "replay": desc,
                           "summary": f"range analysis bound violated: {msg[:200]}", "dedup": fn}
                    rep.report(rec)
                elif ok is False:
                    errors.append(f"{fn}: counterexample does not reproduce: {desc}")
                    stats["l1_unreproduced"] += 1
                else:
                    errors.append(f"{fn}: replay failed: {desc}")
                    stats["l1_unreproduced"] += 1
            if len(samples) < 3 and st == "confirmed" and fn.startswith("shape_"):
                samples.append({"layer": "L1", "function": fn, "shape": chosen[int(fn.split('_')[1])], "verdict": "Confirmed over all paths"})
    # ---- L2 ------------------------------------------------------------------
    from .check_sweep import seed_names

    names = seed_names()
    if tier == "quick" and not os.environ.get("VERIF_ALLSEEDS"):
        pass  # quick also covers every seed (detection must not depend on the rotation)
    jobs = [{"seeds": names[b : b + 3]} for b in range(0, len(names), 3)]
    with mp.get_context("fork").Pool(ncpu(), maxtasksperchild=4) as pool:
        outs2 = pool.map(_l2_work, jobs, chunksize=1)
    for o in outs2:
        stats["l2_claims"] += o["claims"]
        stats["l2_range_claims"] += o.get("range_claims", 0)
        stats["l2_unknown"] += o["unknown"]
        errors += o["errors"][:2]
        samples += [dict(s, layer="L2") for s in o["samples"][:1]] if len(samples) < 6 else []
        for v in o["violations"]:
            rec = dict(v)
            rec.update(property="C13", layer="L2", summary=f"range claim {v['claim']} during {v['during']} of {v['program']} fails for {v['assignment']}", dedup=f"{v['program']}|{v['claim']}")
            rep.report(rec)
    code = rep.finish()
    total = stats["conditions"] + stats["l2_claims"] + stats["l2_range_claims"]
    inconc = stats["l1_inconclusive"] + stats["l2_unknown"] + stats["l1_unreproduced"]
    coverage = {
        "explanation": "L1: CrossHair symbolically executes the real IndexRange/index_range_analysis/constant_bound code per expression shape (symbolic additive constants, optional range ends, valuation; multiplicative/divisor literals concrete in {-3,-1,2}/{1,2,3,8}); only 'Confirmed over all paths' counts. L2: every check_expr_bound(s) claim made while compiling/simplifying corpus procedures and every infer_range result is proved by z3 over unbounded integers under the checker's own variable ranges.",
        "evaluations": total,
        "distinct_nontrivial": stats["l1_confirmed"] + stats["l2_claims"] + stats["l2_range_claims"] - stats["l2_unknown"],
        "rule": "one case = one CrossHair condition (expression shape x analysis entry point) or one logged range claim; counted when decided",
        "samples": samples or [{"note": "none"}],
        "obligations": total,
        "discharged": total - inconc - len(rep.violations),
        "status_counts": dict(stats),
        "crosshair_conditions": nconds,
        "crosshair_wall_s": round(ch_s, 1),
        "per_condition_timeout_s": per_cond,
        "errors": errors[:15],
        "stubs": ["IndexRange.create_* rebound as staticmethod of the same function objects (harness side)", "IndexRangeEnvironment.check_expr_bound(s) wrapped at run time to log claims"],
        "source_hashes": repo_file_hashes(["src/exo/rewrite/range_analysis.py", "src/exo/stdlib/range_analysis.py"]),
        "known_findings_matched": {k: v[1] for k, v in rep.known.items()},
    }
    assumptions = ["divisors are positive literals (enforced by Exo's type checker)", "CrossHair 0.0.110 + z3; per-condition timeouts make a condition inconclusive, never confirmed"]
    write_evidence("C13", tier, vseed, "other", coverage, assumptions, time.time() - t0, len(rep.violations))
    print(f"C13 {tier}: L1 {stats['l1_confirmed']}/{stats['conditions']} conditions confirmed ({stats['l1_inconclusive']} inconclusive, twins {stats['twins_reachable']}/{stats['twins']}), L2 {stats['l2_claims']}+{stats['l2_range_claims']} claims ({stats['l2_unknown']} unknown), {time.time()-t0:.0f}s")
    if code == 0:
        if stats["twins_unreached"] or inconc > 0.2 * max(1, total) or stats["conditions"] == 0 or stats["l1_unreproduced"]:
            for e in errors[:5]:
                print("  ", e[:300])
            return common.EXIT_HARNESS
    return code
