"""C14: library instructions do what their Exo bodies say (llsym vs loopsym per @instr).

For every @instr of exo.platforms.x86 a wrapper procedure is generated that calls
it once: DRAM operands are window arguments of the wrapper (symbolic base offset;
strides as the instruction's own assertions demand), register operands are
AVX2/AVX512 allocations loaded from / stored to extra DRAM arguments with the
plain load/store instructions, size operands are wrapper size arguments
constrained by the instruction's assertions.  The wrapper is compiled by the
real compiler; the C fragment (LLVM IR, llsym) is compared with the instruction's
Exo body (loopsym) by the C02 machinery."""
from __future__ import annotations

import importlib.util
import multiprocessing as mp
import os
import sys
import time
import traceback
from collections import Counter

from . import common
from .common import WORK, Reporter, ncpu, repo_file_hashes, seed_from_env, write_evidence
from .loopsym import Bounds

INCONCLUSIVE_BY_DESIGN = {
    "avx2_ui16_divide_by_3": "integer-typed data arithmetic: the reals model says nothing",
    "prefetch": "no architectural effect",
    "mm256_add_epi16": "saturating integer arithmetic on data: outside the reals model",
}

LOADSTORE = {
    ("AVX2", "f32", 8): ("mm256_loadu_ps", "mm256_storeu_ps"),
    ("AVX2", "f64", 4): ("mm256_loadu_pd", "mm256_storeu_pd"),
    ("AVX2", "ui16", 16): ("mm256_loadu_si256", "mm256_storeu_si256"),
    ("AVX512", "f32", 16): ("mm512_loadu_ps", "mm512_storeu_ps"),
}

TYNAME = {"F32": "f32", "F64": "f64", "UINT16": "ui16", "INT8": "i8", "UINT8": "ui8", "INT32": "i32", "Num": "R"}


def list_instrs():
    import exo.platforms.x86 as X
    from exo.API import Procedure

    out = []
    for nm in sorted(dir(X)):
        v = getattr(X, nm)
        if isinstance(v, Procedure) and v.is_instr():
            out.append((nm, v))
    return out


def wrapper_source(nm, instr):
    """-> (source text of the wrapper or None, reason)"""
    from exo.core.LoopIR import LoopIR, T

    ir = instr._loopir_proc
    wargs = []  # wrapper signature entries
    pre, call, post = [], [], []
    asserts = []
    sizes = set()
    rename = {}
    dram_names = {}
    for a in ir.args:
        an = a.name.name()
        t = a.type
        if isinstance(t, T.Size):
            wargs.append(f"{an}: size")
            sizes.add(an)
            call.append(an)
            rename[an] = an
        elif isinstance(t, (T.Index, T.Int)):
            wargs.append(f"{an}: index")
            call.append(an)
        elif isinstance(t, T.Bool):
            wargs.append(f"{an}: bool")
            call.append(an)
        elif t.is_tensor_or_window():
            bt = TYNAME.get(type(t.type).__name__)
            if bt is None:
                return None, f"element type {t.type}"
            shape = [str(e) for e in t.shape()]
            mem = a.mem.name() if a.mem else "DRAM"
            if mem in ("AVX2", "AVX512"):
                if len(shape) != 1 or not shape[0].isdigit():
                    return None, f"register operand {an} of shape {shape}"
                key = (mem, bt, int(shape[0]))
                if key not in LOADSTORE:
                    return None, f"no load/store pair for {key}"
                ld, stv = LOADSTORE[key]
                n = shape[0]
                wargs.append(f"in_{an}: [{bt}][{n}] @ DRAM")
                wargs.append(f"out_{an}: [{bt}][{n}] @ DRAM")
                asserts.append(f"assert stride(in_{an}, 0) == 1")
                asserts.append(f"assert stride(out_{an}, 0) == 1")
                pre.append(f"r_{an}: {bt}[{n}] @ {mem}")
                pre.append(f"{ld}(r_{an}, in_{an}[0:{n}])")
                call.append(f"r_{an}")
                post.append(f"{stv}(out_{an}[0:{n}], r_{an})")
            elif mem == "DRAM":
                # (prefixed so that a local variable of the C fragment cannot capture the operand's name)
                wargs.append(f"w_{an}: [{bt}][{', '.join(shape)}] @ DRAM")
                dram_names[an] = f"w_{an}"
                call.append(f"w_{an}[" + ", ".join(f"0:{d}" for d in shape) + "]")
            else:
                return None, f"memory {mem}"
        else:
            bt = TYNAME.get(type(t).__name__)
            if bt is None:
                return None, f"scalar type {t}"
            wargs.append(f"{an}: {bt}")
            call.append(an)
    reg_names = {a.name.name() for a in ir.args if a.type.is_tensor_or_window() and (a.mem.name() if a.mem else "DRAM") in ("AVX2", "AVX512")}
    import re as _re

    for p in ir.preds:
        txt = str(p)
        # assertions about register operands hold for the dense allocations of the wrapper (and are
        # still checked at the call site by loopsym); only assertions over wrapper arguments are copied
        if any(_re.search(rf"\b{_re.escape(rn)}\b", txt) for rn in reg_names):
            continue
        for old, new in dram_names.items():
            txt = _re.sub(rf"\b{_re.escape(old)}\b", new, txt)
        asserts.append(f"assert {txt}")
    body = asserts + pre + [f"{nm}({', '.join(call)})"] + post
    src = f"@proc\ndef w_{nm}({', '.join(wargs)}):\n" + "\n".join("    " + l for l in body) + "\n"
    return src, ""


HEADER = """from __future__ import annotations
from exo import proc, DRAM
from exo.libs.memories import AVX2, AVX512
from exo.platforms.x86 import *

"""


def build_wrapper(nm, src):
    d = WORK / "c14"
    d.mkdir(parents=True, exist_ok=True)
    path = d / f"w_{os.getpid()}_{nm}.py"
    path.write_text(HEADER + src)
    modname = f"_c14_{os.getpid()}_{nm}"
    spec = importlib.util.spec_from_file_location(modname, path)
    mod = importlib.util.module_from_spec(spec)
    sys.modules[modname] = mod
    try:
        spec.loader.exec_module(mod)
    finally:
        sys.modules.pop(modname, None)
        try:
            os.unlink(path)
        except OSError:
            pass
    return getattr(mod, f"w_{nm}")


def _work(nm):
    devnull = os.open(os.devnull, os.O_WRONLY)
    saved = os.dup(1)
    os.dup2(devnull, 1)
    try:
        return _work_inner(nm)
    except BaseException as ex:  # noqa
        return {"name": nm, "status": "harness_error", "why": f"{type(ex).__name__}: {ex}", "tb": traceback.format_exc()[-1200:]}
    finally:
        os.dup2(saved, 1)
        os.close(devnull)
        os.close(saved)


def _work_inner(nm):
    import exo.platforms.x86 as X
    from .llsym.harness import check_proc
    from .check_c02 import replay

    instr = getattr(X, nm)
    rec = {"name": nm, "c_instr": instr.get_instr()[:200]}
    if nm in INCONCLUSIVE_BY_DESIGN:
        rec["status"] = "not_judged"
        rec["why"] = INCONCLUSIVE_BY_DESIGN[nm]
        return rec
    src, why = wrapper_source(nm, instr)
    if src is None:
        rec["status"] = "not_judged"
        rec["why"] = "no wrapper: " + why
        return rec
    rec["wrapper"] = src
    try:
        w = build_wrapper(nm, src)
    except BaseException as ex:  # noqa
        if isinstance(ex, (KeyboardInterrupt, SystemExit)):
            raise
        rec["status"] = "wrapper_rejected"
        rec["why"] = f"{type(ex).__name__}: {str(ex).strip().splitlines()[-1][:200]}"
        return rec
    bounds = Bounds(size_max=16, idx_min=-2, idx_max=17, unroll_cap=20, stmt_budget=4000)
    r = check_proc(w, bounds, f"c14_{os.getpid()}_{nm}", max_valuations=40)
    rec.update(status=r.status, why=r.why, valuations=r.valuations, paths=r.paths, obligations=r.obligations, queries=r.queries, unknown=r.unknown, solver_s=round(r.solver_s, 3), intrinsics=r.intrinsics, ir_lines=r.ir_lines, c02=[], c08=[], unreproduced=[])
    for kind, lst in (("C02", r.c02), ("C08", r.c08)):
        for v in lst[:1]:
            ok, desc = replay(w, v, kind, f"c14r_{os.getpid()}_{nm}")
            v2 = {k2: v[k2] for k2 in v if k2 != "model"}
            v2["replay"] = desc
            v2["inputs"] = v["model"]
            if ok:
                rec[kind.lower()].append(v2)
            else:
                v2["reproduced"] = ok
                rec["unreproduced"].append(dict(v2, prop=kind))
    return rec


def run(tier):
    t0 = time.time()
    vseed = seed_from_env()
    instrs = [nm for nm, _v in list_instrs()]
    with mp.get_context("fork").Pool(ncpu(), maxtasksperchild=2) as pool:
        outs = pool.map(_work, instrs, chunksize=1)
    rep = Reporter("C14")
    stats = Counter()
    samples = []
    errors = []
    intr = set()
    not_judged = {}
    for r in outs:
        stats["instructions"] += 1
        stats[r["status"]] += 1
        if r["status"] in ("not_judged", "wrapper_rejected", "inconclusive", "skipped", "compile_rejected", "compile_failure"):
            not_judged[r["name"]] = f"{r['status']}: {r.get('why', '')[:160]}"
        if r["status"] == "harness_error":
            errors.append(f"{r['name']}: {r.get('why')}")
            continue
        intr |= set(r.get("intrinsics", []))
        stats["paths"] += r.get("paths", 0)
        stats["queries"] += r.get("queries", 0)
        stats["unknown"] += r.get("unknown", 0)
        for u in r.get("unreproduced", []):
            stats["unreproduced"] += 1
            errors.append(f"{r['name']}: candidate not reproduced natively: {u.get('replay')}")
        if r["status"] == "compile_failure":
            rec = {"property": "C14", "instr": r["name"], "c_instr": r.get("c_instr"), "wrapper": r.get("wrapper"), "kind": "c_compile_error", "detail": r.get("why"),
                   "summary": f"the C fragment of instruction {r['name']} does not compile: {str(r.get('why'))[-200:]}", "dedup": f"{r['name']}|cc"}
            rep.report(rec)
        for kind in ("c02", "c08"):
            for v in r.get(kind, []):
                rec = {"property": "C14", "instr": r["name"], "c_instr": r.get("c_instr"), "wrapper": r.get("wrapper"), "kind": "value" if kind == "c02" else v.get("kind"), "detail": v,
                       "summary": f"instruction {r['name']}: {v.get('replay')}", "dedup": f"{r['name']}|{kind}"}
                rep.report(rec)
        if len(samples) < 4 and r["status"] == "ok":
            samples.append({"instr": r["name"], "valuations": r.get("valuations"), "paths": r.get("paths"), "queries": r.get("queries"), "wrapper": r.get("wrapper", "")[:500]})
    code = rep.finish()
    ok = stats["ok"]
    coverage = {"programs": ok, "disagreements_checked": len(rep.violations) + sum(v[1] for v in rep.known.values()), "samples": samples or [{"note": "none"}], "evaluations": stats["instructions"], "distinct_nontrivial": ok,
                "rule": "one case = one @instr of exo.platforms.x86 wrapped in a generated procedure and decided by llsym vs loopsym for every admissible value of its size arguments, all operand lanes, window offsets",
                "status_counts": dict(stats), "not_judged": not_judged, "intrinsics_modelled_and_used": sorted(intr), "errors": errors[:10],
                "source_hashes": repo_file_hashes(["src/exo/platforms/x86.py", "src/exo/libs/memories.py", "src/exo/backend/LoopIR_compiler.py"]), "known_findings_matched": {k: v[1] for k, v in rep.known.items()}}
    assumptions = ["register operands are loaded/stored with the library's own plain load/store instructions (checked as a pair)", "reals for floats; _CMP_LT_OQ etc. on non-NaN values", "AVX-512 code is compiled with -mavx512f... and interpreted, not run (replay needs the host CPU, which has AVX-512)",
                   "instructions listed under not_judged are outside the claim (integer data arithmetic, prefetch, operands the wrapper generator cannot place)"]
    write_evidence("C14", tier, vseed, "translation_validation", coverage, assumptions, time.time() - t0, len(rep.violations))
    print(f"C14 {tier}: {stats['instructions']} instructions, {ok} decided, {len(not_judged)} not judged, {stats['queries']} queries, unknown={stats['unknown']}, {time.time()-t0:.0f}s")
    for k, v in list(not_judged.items())[:12]:
        print(f"   not judged: {k}: {v[:140]}")
    for e in errors[:4]:
        print("   note:", e[:300])
    if code == 0 and (ok < 10 or stats["harness_error"] or stats["unreproduced"] > 0.2 * max(1, stats["instructions"])):
        return common.EXIT_HARNESS
    return code
