"""C19: signature- and annotation-changing utilities keep the loop nest.

partial_eval / transpose / add_assertion are decided by the C01 equivalence
query under an input relation; rename, make_instr, set_precision, set_memory,
set_window, parallelize_loop by the plain C01 query (through the sweep)."""
from __future__ import annotations

import itertools
import multiprocessing as mp
import os
import random
import time
import traceback
from collections import Counter

import z3

from . import common
from . import loopsym as L
from .common import Reporter, ncpu, repo_file_hashes, seed_from_env, write_evidence
from .equiv import ProcCtx, cex_to_json
from .loopsym import Bounds, TooBig, Unsupported

ANNOT_OPS = ["rename", "make_instr", "set_precision", "set_memory", "set_window", "parallelize_loop"]


def _pe_candidates(p_ir, bounds, rng, tier):
    from exo.core.LoopIR import T

    ctrl = [(pos, a) for pos, a in enumerate(p_ir.args) if L.is_ctrl_type(a.type)]
    singles = []
    for pos, a in ctrl:
        if isinstance(a.type, T.Size):
            vals = list(range(1, bounds.size_max + 1))
        elif isinstance(a.type, T.Bool):
            vals = [True, False]
        else:
            vals = [-1, 0, 1, 2, bounds.size_max]
        for v in vals:
            singles.append({a.name.name(): v})
    out = list(singles)
    if len(ctrl) >= 2:
        pairs = []
        for (p1, a1), (p2, a2) in itertools.combinations(ctrl, 2):
            for d1 in [d for d in singles if a1.name.name() in d][:3]:
                for d2 in [d for d in singles if a2.name.name() in d][:3]:
                    dd = dict(d1)
                    dd.update(d2)
                    pairs.append(dd)
        rng.shuffle(pairs)
        out += pairs[: (6 if tier == "quick" else 30)]
    return out


def _work(job):
    devnull = os.open(os.devnull, os.O_WRONLY)
    saved = os.dup(1)
    os.dup2(devnull, 1)
    try:
        return _work_inner(job)
    except BaseException as ex:  # noqa
        return {"seed": job["seed_name"], "instances": [], "errors": [f"worker crashed: {type(ex).__name__}: {ex}", traceback.format_exc()[-1500:]]}
    finally:
        os.dup2(saved, 1)
        os.close(devnull)
        os.close(saved)


def _work_inner(job):
    import corpus.seeds as S
    from exo.core.LoopIR import T

    name = job["seed_name"]
    tier = job["tier"]
    bounds = Bounds(**job["bounds"])
    rng = random.Random(f"{job['rngseed']}-{name}")
    p = S.by_name(name)
    p_ir = p._loopir_proc
    out = {"seed": name, "instances": [], "errors": [], "p_src": str(p)}
    try:
        ctx = ProcCtx(p_ir, bounds, timeout_ms=30000)
    except (Unsupported, TooBig, L.IllFormed) as ex:
        out["errors"].append(f"cannot encode original: {ex}")
        return out
    inp = ctx.inputs

    def obligations(rec, q_ir, q_argvals, q_conc, extra=()):
        """the derived procedure must be safe wherever the original is (call-site assertions such as stride
        preconditions, bounds, shapes): z3 searches for an input violating an obligation of q, replayed concretely"""
        from .equiv import conc_run
        from .loopsym import ConcViolation

        if rec.get("verdict") not in ("equal",):
            return
        r2 = ctx.symbolic_run(q_ir, tag=f"ob{len(out['instances'])}_", argvals=q_argvals)
        viol, inconc, nobl = ctx.check_obligations(q_ir, r2, extra_assume=list(extra))
        rec["obligations"] = nobl
        for o, cex in viol:
            try:
                conc_run(p_ir, cex)
            except ConcViolation:
                continue  # the original is itself unsafe on this input
            except (Unsupported, TooBig):
                continue
            cq = dict(cex)
            if q_conc is not None:
                cq = dict(cex, args=q_conc(cex))
            try:
                conc_run(q_ir, cq, check_preds=False)
            except ConcViolation as cv:
                rec["verdict"] = "differ"
                rec["label"] = "unsafe:" + o.kind
                rec["detail"] = f"the derived procedure violates {cv} on an input on which the original is safe"
                rec["cex"] = cex_to_json(cex)
                return
            except (Unsupported, TooBig):
                continue

    def record(kind, desc, fn):
        rec = {"kind": kind, "args": desc}
        try:
            fn(rec)
        except (Unsupported, TooBig) as ex:
            rec["status"] = "skipped"
            rec["why"] = str(ex)
        except Exception as ex:
            rec["status"] = "harness_error"
            rec["why"] = f"{type(ex).__name__}: {ex}"
            rec["tb"] = traceback.format_exc()[-1200:]
        out["instances"].append(rec)

    # ---- partial_eval -------------------------------------------------------
    for vals in _pe_candidates(p_ir, bounds, rng, tier):

        def do_pe(rec, vals=vals):
            try:
                q = p.partial_eval(**vals)
            except BaseException as ex:  # noqa
                rec["status"] = "rejected"
                rec["exc"] = type(ex).__name__
                return
            rec["status"] = "accepted"
            rec["q_src"] = str(q)
            q_ir = q._loopir_proc
            fixed = {pos: vals[a.name.name()] for pos, a in enumerate(p_ir.args) if a.name.name() in vals}
            keep = [pos for pos in range(len(p_ir.args)) if pos not in fixed]
            if len(keep) != len(q_ir.args):
                rec["verdict"] = "differ"
                rec["detail"] = f"partial_eval result has {len(q_ir.args)} arguments, expected {len(keep)}"
                return
            extra = []
            for pos, v in fixed.items():
                c = inp.ctrl[pos]
                extra.append(c == (z3.BoolVal(v) if isinstance(v, bool) else z3.IntVal(v)))
            # is the fixed valuation admissible at all?
            r = ctx._check(extra)
            ctx._pop()
            if r != z3.sat:
                rec["verdict"] = "vacuous"
                return
            full = inp.instantiate(p_ir)
            q_argvals = [full[pos] for pos in keep]
            pos_map = {pos: k for k, pos in enumerate(keep)}

            def q_conc(cex):
                return [L.copy_conc_args(cex["args"])[pos] for pos in keep]

            v = ctx.compare(q_ir, pos_map=pos_map, q_argvals=q_argvals, q_conc_args=q_conc, extra_assume=extra)
            rec["verdict"] = v.status
            rec["tier"] = v.tier
            rec["queries"] = v.queries
            rec["trivial"] = v.trivially_equal
            if v.status != "equal":
                rec["detail"] = v.detail
                rec["label"] = v.label
            if v.cex:
                rec["cex"] = cex_to_json(v.cex)
            obligations(rec, q_ir, q_argvals, q_conc, extra)

        record("partial_eval", vals, do_pe)

    # ---- transpose ---------------------------------------------------------------
    for pos, a in enumerate(p_ir.args):
        if not (a.type.is_tensor_or_window() and len(a.type.shape()) == 2):
            continue

        def do_tr(rec, pos=pos, a=a):
            try:
                ac = [c for c in p.args() if c.name() == a.name.name()][0]
                q = p.transpose(ac)
            except BaseException as ex:  # noqa
                rec["status"] = "rejected"
                rec["exc"] = type(ex).__name__
                return
            rec["status"] = "accepted"
            rec["q_src"] = str(q)
            q_ir = q._loopir_proc
            full = inp.instantiate(p_ir)
            st = full[pos].store
            i, j = z3.Int("__ti"), z3.Int("__tj")
            tval = z3.Lambda([j, i], z3.Select(st.val, i, j))
            tst = L.Store(st.name + "_T", [st.shape[1], st.shape[0]], tval, True, None if st.strides is None else [st.strides[1], st.strides[0]], "arg", pos)
            q_argvals = list(full)
            q_argvals[pos] = L.full_ref(tst)

            def q_conc(cex):
                args = L.copy_conc_args(cex["args"])
                d = args[pos]
                args[pos] = {"shape": [d["shape"][1], d["shape"][0]], "data": {(k[1], k[0]): v for k, v in d["data"].items()}, "strides": None if d.get("strides") is None else [d["strides"][1], d["strides"][0]]}
                return args

            v = ctx.compare(q_ir, idx_map={pos: lambda js: [js[1], js[0]]}, idx_map_c={pos: lambda idx: (idx[1], idx[0])}, q_argvals=q_argvals, q_conc_args=q_conc)
            rec["verdict"] = v.status
            rec["tier"] = v.tier
            rec["queries"] = v.queries
            rec["trivial"] = v.trivially_equal
            if v.status != "equal":
                rec["detail"] = v.detail
                rec["label"] = v.label
            if v.cex:
                rec["cex"] = cex_to_json(v.cex)
            obligations(rec, q_ir, q_argvals, q_conc)

        record("transpose", a.name.name(), do_tr)

    # ---- add_assertion -----------------------------------------------------------
    sizes = [a.name.name() for a in p_ir.args if isinstance(a.type, T.Size)]
    for s in sizes[:2]:
        for txt in (f"{s} > 1", f"{s} == 2", f"{s} % 2 == 0"):

            def do_aa(rec, txt=txt):
                try:
                    q = p.add_assertion(txt)
                except BaseException as ex:  # noqa
                    rec["status"] = "rejected"
                    rec["exc"] = type(ex).__name__
                    return
                rec["status"] = "accepted"
                rec["q_src"] = str(q)
                q_ir = q._loopir_proc
                # (1) only narrows: every old assertion is still there, and new preds imply old preds
                ex1 = L.SymExec(inp, None)
                base_vals = [c if c is not None else L.full_ref(st) for c, st in zip(inp.ctrl, inp.stores)]
                qp = ex1.preds(q_ir, base_vals)
                r = ctx._check(qp + [z3.Not(z3.And(*ctx.pre))] if ctx.pre else qp + [z3.BoolVal(False)])
                ctx._pop()
                if r == z3.sat:
                    rec["verdict"] = "differ"
                    rec["detail"] = "new assertions do not imply the old ones"
                    return
                v = ctx.compare(q_ir, extra_assume=qp)
                rec["verdict"] = v.status
                rec["tier"] = v.tier
                rec["queries"] = v.queries + 1
                rec["trivial"] = v.trivially_equal
                if v.status != "equal":
                    rec["detail"] = v.detail
                if v.cex:
                    rec["cex"] = cex_to_json(v.cex)

            record("add_assertion", txt, do_aa)
    out["queries"] = ctx.queries
    out["solver_s"] = ctx.solver_s
    return out


def run(tier):
    from .check_sweep import plan_jobs, run_jobs, classify, seed_names

    t0 = time.time()
    vseed = seed_from_env()
    names = seed_names()
    if tier == "quick" and not os.environ.get("VERIF_ALLSEEDS"):
        pass  # quick also covers every seed (detection must not depend on the rotation)
    bounds = dict(size_max=3) if tier == "quick" else dict(size_max=4, idx_max=5, stmt_budget=2500)
    jobs = [dict(seed_name=n, tier=tier, rngseed=vseed, bounds=bounds) for n in names]
    ctx = mp.get_context("fork")
    with ctx.Pool(ncpu(), maxtasksperchild=4) as pool:
        results = pool.map(_work, jobs, chunksize=1)
    rep = Reporter("C19")
    stats = Counter()
    samples = []
    errors = []
    queries = 0
    solver_s = 0.0
    for res in results:
        errors += [f"{res['seed']}: {e}" for e in res.get("errors", [])]
        queries += res.get("queries", 0)
        solver_s += res.get("solver_s", 0.0)
        for inst in res["instances"]:
            stats["attempts"] += 1
            stats[inst["status"]] += 1
            if inst["status"] == "harness_error":
                errors.append(f"{res['seed']} {inst['kind']} {inst['args']}: {inst.get('why')}")
            if inst["status"] != "accepted":
                continue
            stats[f"{inst['kind']}_{inst.get('verdict')}"] += 1
            if inst.get("verdict") == "inconclusive":
                stats["inconclusive"] += 1
            if inst.get("trivial"):
                stats["trivial"] += 1
            if inst.get("verdict") == "differ":
                rec = {"property": "C19", "seed": res["seed"], "op": inst["kind"], "args": inst["args"], "detail": inst.get("detail"), "cex": inst.get("cex"), "p_src": res.get("p_src"), "q_src": inst.get("q_src"),
                       "summary": f"{inst['kind']}({inst['args']}) on {res['seed']}: {inst.get('detail')}", "dedup": f"{res['seed']}|{inst['kind']}"}
                rep.report(rec)
            if len(samples) < 5 and inst["kind"] not in [s["kind"] for s in samples]:
                samples.append({"seed": res["seed"], "kind": inst["kind"], "args": inst["args"], "derived": (inst.get("q_src") or "")[:400], "verdict": inst.get("verdict")})
    # annotation ops through the sweep
    sw_jobs = plan_jobs({"C01"}, tier, vseed, only_seeds=None, only_ops=ANNOT_OPS)
    sw = run_jobs(sw_jobs)
    for res in sw:
        errors += [f"{res['seed']}: {e}" for e in res.get("errors", [])]
        queries += res.get("stats", {}).get("queries", 0)
        solver_s += res.get("stats", {}).get("solver_s", 0.0)
        for inst in res["instances"]:
            stats["attempts"] += 1
            stats[inst["status"]] += 1
            if inst["status"] != "accepted":
                continue
            stats[f"{inst['op']}_{inst.get('c01')}"] += 1
            if inst.get("c01") == "inconclusive":
                stats["inconclusive"] += 1
            if inst.get("c01_trivial"):
                stats["trivial"] += 1
            for v in classify("C01", res, inst):
                v["property"] = "C19"
                rep.report(v)
    code = rep.finish()
    accepted = stats["accepted"]
    coverage = {
        "programs": accepted,
        "disagreements_checked": len(rep.violations) + sum(v[1] for v in rep.known.values()),
        "samples": samples or [{"note": "none"}],
        "evaluations": stats["attempts"],
        "distinct_nontrivial": accepted - stats["trivial"],
        "rule": "one case = one accepted partial_eval valuation / transpose argument / add_assertion text / annotation-op instance on a corpus procedure; non-trivial = needed a solver query",
        "status_counts": dict(stats),
        "solver_queries": queries,
        "solver_s": round(solver_s, 2),
        "errors": errors[:20],
        "bounds": bounds,
        "source_hashes": repo_file_hashes(["src/exo/API.py", "src/exo/rewrite/LoopIR_scheduling.py", "src/exo/API_scheduling.py"]),
        "known_findings_matched": {k: v[1] for k, v in rep.known.items()},
    }
    assumptions = [
        "partial_eval: p' on inputs r is compared with p on (vals, r) for every single control argument and sampled pairs, values over the bounded range",
        "transpose: initial and final A'[j,i] = A[i,j]",
        "add_assertion: conj(new preds) implies conj(old preds) (z3) and bodies are equivalent under the new preds",
        "same bounds and reals model as C01",
    ]
    write_evidence("C19", tier, vseed, "translation_validation", coverage, assumptions, time.time() - t0, len(rep.violations))
    bad = stats.get("inconclusive", 0) + stats.get("harness_error", 0)
    print(f"C19 {tier}: {accepted} accepted instances, {queries} queries, {time.time()-t0:.0f}s; inconclusive={stats.get('inconclusive',0)} harness_errors={stats.get('harness_error',0)}")
    if code == 0 and bad > 0.2 * max(1, accepted):
        for e in errors[:5]:
            print("  ", e)
        return common.EXIT_HARNESS
    return code
