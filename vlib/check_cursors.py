"""C06 (forwarded cursors) and C16 (find / navigation).

L1 (both): CrossHair conditions of vlib/ch_cursors.py on the real
internal_cursors.py / API_cursors.py, one OS process per condition.
C06 L2: the sweep forwards every statement/block/gap cursor of every instance.
C16 (b): '#n' selection and program order of find(), checked on every corpus
procedure against the many=True result (concrete observations)."""
from __future__ import annotations

import multiprocessing as mp
import os
import re
import subprocess
import time
from collections import Counter

from . import common
from .common import ROOT, WORK, Reporter, ncpu, repo_file_hashes, seed_from_env, write_evidence

HARNESS = ROOT / "vlib" / "ch_cursors.py"


def conditions(prefix, nmax):
    """-> (path of the generated harness file, [(function name, line)])"""
    src = HARNESS.read_text()
    if nmax != 5:
        src = src.replace("<= n <= 5", f"<= n <= {nmax}")
    d = WORK / "ch"
    d.mkdir(parents=True, exist_ok=True)
    path = d / f"ch_cursors_{nmax}.py"
    path.write_text(src)
    out = []
    lines = src.splitlines()
    for k, l in enumerate(lines):
        m = re.match(r"^def ((c06|c16)_\w+)\(", l)
        if m and m.group(1).startswith(prefix):
            out.append((m.group(1), k + 1))
    return str(path), out


def run_one(job):
    path, fn, line, per_cond, wall = job
    env = dict(os.environ)
    env["PYTHONPATH"] = f"{ROOT}:{common.REPO}/src"
    t0 = time.time()
    try:
        p = subprocess.run([str(ROOT / ".venv/bin/crosshair"), "check", "--report_all", "--per_condition_timeout", str(per_cond), f"{path}:{line + 2}"], capture_output=True, text=True, timeout=wall, env=env)
        out = (p.stdout + p.stderr).strip().splitlines()
        msg = out[-1] if out else "no output"
    except subprocess.TimeoutExpired:
        msg = "wall timeout"
    dt = time.time() - t0
    if "Confirmed over all paths" in msg:
        st = "confirmed"
    elif "false when calling" in msg or "when calling" in msg:
        st = "refuted"
    else:
        st = "inconclusive"
    return fn, st, msg[-300:], round(dt, 1)


def replay_cex(path, msg):
    m = re.search(r"when calling (\w+)\((.*?)\)(?: \(which returns|\s*$)", msg)
    if not m:
        return None, "cannot parse counterexample"
    fn, args = m.group(1), m.group(2)
    code = f"import importlib.util\nspec=importlib.util.spec_from_file_location('h', {path!r})\nmod=importlib.util.module_from_spec(spec)\nimport sys\nsys.modules['h']=mod\nspec.loader.exec_module(mod)\ntry:\n    print('RESULT', mod.{fn}({args}))\nexcept Exception as e:\n    print('RESULT EXC', type(e).__name__, e)\n"
    env = dict(os.environ)
    env["PYTHONPATH"] = f"{ROOT}:{common.REPO}/src"
    p = subprocess.run(["/venv/bin/python", "-c", code], capture_output=True, text=True, env=env, timeout=120)
    if "RESULT False" in p.stdout or "RESULT EXC" in p.stdout:
        return True, p.stdout.strip()[-200:]
    if "RESULT True" in p.stdout:
        return False, "returns True when run concretely"
    return None, (p.stdout + p.stderr)[-200:]


def l1(prop, tier, rep, stats, errors, samples):
    from .check_c13 import ensure_venv

    if not ensure_venv():
        errors.append("CrossHair overlay venv could not be built")
        return
    prefix = "c06_" if prop == "C06" else "c16_"
    nmax = 3 if tier == "quick" else 5
    per_cond = 150 if tier == "quick" else 900
    path, conds = conditions(prefix, nmax)
    jobs = [(path, fn, line, per_cond, per_cond + 90) for fn, line in conds]
    with mp.get_context("fork").Pool(min(len(jobs), ncpu())) as pool:
        outs = pool.map(run_one, jobs, chunksize=1)
    for fn, st, msg, dt in outs:
        twin = fn.endswith("_twin")
        if twin:
            stats["twins"] += 1
            if st == "refuted":
                stats["twins_reachable"] += 1
            else:
                errors.append(f"reachability twin {fn} not refuted: {msg}")
            continue
        stats["conditions"] += 1
        stats["l1_" + st] += 1
        if st == "refuted":
            ok, desc = replay_cex(path, msg)
            if ok:
                rec = {"property": prop, "layer": "L1", "function": fn, "message": msg, "replay": desc, "summary": f"{fn}: {msg[-200:]}", "dedup": fn}
                rep.report(rec)
            else:
                stats["l1_unreproduced"] += 1
                errors.append(f"{fn}: counterexample not reproduced: {desc}")
        elif st == "inconclusive":
            errors.append(f"{fn}: {msg[-120:]}")
        if len(samples) < 4 and st == "confirmed":
            samples.append({"layer": "L1", "condition": fn, "verdict": "Confirmed over all paths", "seconds": dt})
    return nmax, per_cond


# ---------------------------------------------------------------------------
# C16 (b): find / '#n'


def _find_work(names):
    import corpus.seeds as S
    import exo.API_cursors as PC
    from . import sched_enum as SE

    out = {"checks": 0, "problems": [], "samples": []}
    for name in names:
        p = S.by_name(name)
        pats = set()
        for s in SE.stmt_cursors(p):
            if isinstance(s, PC.ForCursor):
                pats.add(f"for {s.name()} in _: _")
            elif isinstance(s, (PC.AssignCursor,)):
                pats.add(f"{s.name()}[_] = _" if len(s.idx()) else f"{s.name()} = _")
            elif isinstance(s, PC.ReduceCursor):
                pats.add(f"{s.name()}[_] += _" if len(s.idx()) else f"{s.name()} += _")
            elif isinstance(s, PC.AllocCursor):
                pats.add(f"{s.name()} : _")
            elif isinstance(s, PC.CallCursor):
                pats.add(f"{s.subproc().name()}(_)")
        pats |= {"for _ in _: _", "_ = _", "if _: _"}
        order = {}
        # program order = pre-order traversal (body before orelse)
        def _key(path):
            return tuple((0 if a == "body" else 1, -1 if i is None else i) for a, i in path)

        for k, s in enumerate(sorted(SE.stmt_cursors(p), key=lambda c: _key(c._impl._path))):
            order[tuple(map(tuple, s._impl._path))] = k
        for pat in sorted(pats):
            try:
                allm = p.find(pat, many=True)
            except Exception:
                allm = []
            keys = []
            for c in allm:
                impl = c._impl
                path = impl._path if hasattr(impl, "_path") else impl._anchor._path + [(impl._attr, impl._range.start)]
                keys.append(tuple(map(tuple, path)))
            out["checks"] += 1
            # program order and no duplicates
            ks = [order.get(k) for k in keys]
            if len(set(keys)) != len(keys):
                out["problems"].append({"program": name, "pattern": pat, "problem": "duplicate matches"})
            if all(k is not None for k in ks) and ks != sorted(ks):
                out["problems"].append({"program": name, "pattern": pat, "problem": f"matches are not in program order: {ks}"})
            # '#n' selects the n-th match; one past the end raises
            for n in range(len(allm) + 1):
                out["checks"] += 1
                try:
                    one = p.find(f"{pat} #{n}")
                except Exception as ex:
                    if n < len(allm):
                        out["problems"].append({"program": name, "pattern": pat, "problem": f"#{n} raises {type(ex).__name__} although {len(allm)} matches exist"})
                    continue
                if n >= len(allm):
                    out["problems"].append({"program": name, "pattern": pat, "problem": f"#{n} returns a match although only {len(allm)} exist"})
                    continue
                impl = one._impl
                path = impl._path if hasattr(impl, "_path") else impl._anchor._path + [(impl._attr, impl._range.start)]
                if tuple(map(tuple, path)) != keys[n]:
                    out["problems"].append({"program": name, "pattern": pat, "problem": f"#{n} selects a different match than element {n} of find(many=True)"})
            if len(out["samples"]) < 2 and allm:
                out["samples"].append({"program": name, "pattern": pat, "matches": len(allm)})
        # completeness for name patterns: every use of a control variable that navigation through the public
        # cursor API reaches (loop bounds, conditions, indices, right-hand sides, call arguments) is found
        reads = {}
        for s_ in SE.stmt_cursors(p):
            roots = []
            if isinstance(s_, (PC.AssignCursor, PC.ReduceCursor)):
                roots += [s_.rhs()] + list(s_.idx())
            elif isinstance(s_, PC.AssignConfigCursor):
                roots.append(s_.rhs())
            elif isinstance(s_, PC.ForCursor):
                roots += [s_.lo(), s_.hi()]
            elif isinstance(s_, PC.IfCursor):
                roots.append(s_.cond())
            elif isinstance(s_, PC.CallCursor):
                roots += list(s_.args())
            for r_ in roots:
                try:
                    for e_ in SE._sub_exprs(r_):
                        if isinstance(e_, PC.ReadCursor) and len(list(e_.idx())) == 0:
                            reads.setdefault(e_.name(), []).append(tuple(map(tuple, e_._impl._path)))
                except Exception:
                    pass
        ctrl = set(SE.ctrl_arg_names(p)[0] + SE.ctrl_arg_names(p)[1]) | {s_.name() for s_ in SE.stmt_cursors(p) if isinstance(s_, PC.ForCursor)}
        for v in sorted(ctrl):
            want = set(reads.get(v, []))
            if not want:
                continue
            out["checks"] += 1
            try:
                got = {tuple(map(tuple, c._impl._path)) for c in p.find(v, many=True) if hasattr(c._impl, "_path")}
            except Exception as ex:
                out["problems"].append({"program": name, "pattern": v, "problem": f"find raises {type(ex).__name__} although {len(want)} uses of the variable exist"})
                continue
            missing = want - got
            if missing:
                out["problems"].append({"program": name, "pattern": v, "problem": f"find misses {len(missing)} of {len(want)} uses of the variable, e.g. at {sorted(missing)[0]}"})
    return out


def run(prop, tier):
    t0 = time.time()
    vseed = seed_from_env()
    rep = Reporter(prop)
    stats = Counter()
    errors = []
    samples = []
    r = l1(prop, tier, rep, stats, errors, samples)
    nmax, per_cond = r if r else (0, 0)
    l2_info = {}
    if prop == "C06":
        from .check_sweep import plan_jobs, run_jobs, classify, chain_jobs
        import random

        jobs = plan_jobs({"C06"}, tier, vseed)
        results = run_jobs(jobs)
        cj = chain_jobs(results, {j["seed_name"]: j for j in jobs}, 16 if tier == "quick" else 150, random.Random(vseed))
        res2 = run_jobs(cj) if cj else []
        for j, rr in zip(cj, res2):
            rr["chain"] = j["chain"]
        for res in results + res2:
            errors += [f"{res['seed']}: {e}" for e in res.get("errors", [])][:2]
            for inst in res["instances"]:
                if inst["status"] != "accepted":
                    continue
                stats["l2_instances"] += 1
                stats["l2_" + str(inst.get("c06"))] += 1
                stats["l2_cursors_forwarded"] += inst.get("c06_forwarded", 0)
                stats["l2_cursors_invalidated"] += inst.get("c06_invalid", 0)
                stats["l2_direct_vs_forwarded"] += inst.get("c06_direct_vs_forwarded", 0)
                for v in classify("C06", res, inst):
                    rep.report(v)
                if len(samples) < 7 and inst.get("c06_forwarded"):
                    samples.append({"layer": "L2", "seed": res["seed"], "op": inst["op"], "args": inst["args"], "cursors_forwarded": inst.get("c06_forwarded"), "invalidated": inst.get("c06_invalid")})
    else:
        from .check_sweep import seed_names

        names = seed_names()
        chunks = [names[i::ncpu()] for i in range(ncpu())]
        with mp.get_context("fork").Pool(ncpu()) as pool:
            outs = pool.map(_find_work, [c for c in chunks if c])
        for o in outs:
            stats["find_checks"] += o["checks"]
            samples += [dict(s, layer="find") for s in o["samples"][:1]] if len(samples) < 7 else []
            for pr in o["problems"]:
                rec = {"property": "C16", "layer": "find", "detail": pr, "summary": f"find on {pr['program']} with pattern {pr['pattern']!r}: {pr['problem']}", "dedup": f"{pr['program']}|{pr['pattern']}|{pr['problem'][:30]}"}
                rep.report(rec)
    code = rep.finish()
    total = stats["conditions"] + stats.get("l2_instances", 0) + stats.get("find_checks", 0)
    coverage = {
        "explanation": ("L1: CrossHair symbolically executes the real internal_cursors.py (mock tree with symbolic sizes, edit locations and cursor positions) "
                        + ("for insert / delete / replace / wrap / move and checks that a forwarded cursor is invalid or denotes the statement(s) with the same labels; L2: every statement, block and gap cursor of every accepted sweep instance is forwarded through the real composed forwarding function and compared by statement kind and source tag, and un-forwarded cursors handed to a second operation give the same result as explicitly forwarded ones." if prop == "C06"
                           else "and API_cursors.py for next/prev, parent/child, before/after/anchor, block indexing, slicing and expand (mutual inverses, InvalidCursor at the edges); find(): '#n' selects element n of the many=True result, matches are duplicate-free and in program order, one past the end raises (checked on every corpus procedure).")),
        "evaluations": total,
        "distinct_nontrivial": stats["l1_confirmed"] + stats.get("l2_ok", 0) + stats.get("find_checks", 0),
        "rule": "one case = one CrossHair condition confirmed over all paths, one sweep instance with all its cursors forwarded, or one find() query",
        "samples": samples or [{"note": "none"}],
        "status_counts": dict(stats),
        "bounds": {"mock_tree_top_level_max": nmax, "per_condition_timeout_s": per_cond},
        "errors": errors[:12],
        "source_hashes": repo_file_hashes(["src/exo/core/internal_cursors.py", "src/exo/API_cursors.py", "src/exo/frontend/pattern_match.py", "src/exo/API.py"]),
        "known_findings_matched": {k: v[1] for k, v in rep.known.items()},
    }
    assumptions = ["CrossHair 0.0.110: only 'Confirmed over all paths' counts; timeouts are inconclusive", "mock nodes (label, body, orelse, update) stand for LoopIR nodes: internal_cursors.py is generic over the node type",
                   "L2 oracle: statement kind + source location tag (rewrites keep the srcinfo of statements they transform); duplicating rewrites may forward to any copy"]
    if prop == "C16":
        assumptions.append("not claimed: that find()'s match set equals what an independent matcher finds for arbitrary pattern strings (purely syntactic, no symbolic domain)")
    write_evidence(prop, tier, vseed, "other", coverage, assumptions, time.time() - t0, len(rep.violations))
    print(f"{prop} {tier}: L1 {stats['l1_confirmed']}/{stats['conditions']} conditions confirmed (twins {stats['twins_reachable']}/{stats['twins']})" + (f", L2 {stats['l2_instances']} instances / {stats['l2_cursors_forwarded']} cursors forwarded" if prop == "C06" else f", find checks {stats['find_checks']}") + f", {time.time()-t0:.0f}s")
    for e in errors[:4]:
        print("   note:", e[:260])
    if code == 0 and (stats["l1_inconclusive"] > 0.25 * max(1, stats["conditions"]) or stats["conditions"] == 0 or stats["l1_unreproduced"] or stats["twins_reachable"] != stats["twins"]):
        return common.EXIT_HARNESS
    return code
