"""Checks built on the schedule sweep: C01, C04, C07 (and C10 through config seeds)."""
from __future__ import annotations

import contextlib
import json
import multiprocessing as mp
import os
import random
import sys
import time
from collections import Counter

from . import common
from .common import Reporter, write_evidence, seed_from_env, ncpu, repo_file_hashes

ANCHOR_FILES = [
    "src/exo/rewrite/LoopIR_scheduling.py",
    "src/exo/rewrite/new_eff.py",
    "src/exo/rewrite/new_analysis_core.py",
    "src/exo/API_scheduling.py",
    "src/exo/API.py",
    "src/exo/core/LoopIR.py",
    "src/exo/core/internal_cursors.py",
    "src/exo/rewrite/LoopIR_unification.py",
]


def _worker(job):
    # silence chatty scheduling ops (replace prints unification failures)
    devnull = os.open(os.devnull, os.O_WRONLY)
    saved = os.dup(1)
    os.dup2(devnull, 1)
    try:
        from .sweep import sweep_seed

        return sweep_seed(job)
    except BaseException as ex:  # noqa
        import traceback

        return {"seed": job.get("seed_name"), "instances": [], "errors": [f"worker crashed: {type(ex).__name__}: {ex}", traceback.format_exc()[-2000:]], "stats": {}}
    finally:
        os.dup2(saved, 1)
        os.close(devnull)
        os.close(saved)


def seed_names():
    import corpus.seeds as S

    return [nm for nm, _p, _t in S.SEEDS]


def seed_names_tagged(tags):
    import corpus.seeds as S

    return [nm for nm, _p, t in S.SEEDS if t & set(tags)]


def plan_jobs(props, tier, vseed, only_seeds=None, only_ops=None, cap_override=None):
    names = seed_names()
    if only_seeds:
        names = [n for n in names if n in only_seeds]
    # quick covers EVERY seed (a change that only shows on one seed must not depend on the rotation); what
    # VERIF_SEED rotates is which argument candidates are drawn when an operation has more than the cap
    if tier == "quick":
        bounds = dict(size_max=3, idx_min=-2, idx_max=4)
        cap = 5
        budget = 100
    else:
        bounds = dict(size_max=4, idx_min=-2, idx_max=5, unroll_cap=12, stmt_budget=2500)
        cap = 20
        budget = 420
    if cap_override:
        cap = cap_override
    jobs = []
    for n in names:
        jobs.append(dict(seed_name=n, props=sorted(props), tier=tier, rngseed=vseed, bounds=bounds, cap=cap, budget_s=budget, ops=only_ops, timeout_ms=20000 if tier == "quick" else 60000))
    return jobs


def run_jobs(jobs, nproc=None):
    nproc = nproc or ncpu()
    # longest first is unknown; shuffle deterministically to balance
    ctx = mp.get_context("fork")
    with ctx.Pool(nproc, maxtasksperchild=4) as pool:
        results = pool.map(_worker, jobs, chunksize=1)
    return results


def chain_jobs(results, jobs_by_seed, n_chains, rng, depth_cap=1):
    """pick accepted instances and build second-level sweep jobs on the derived procedures"""
    pool = []
    for res in results:
        for r in res["instances"]:
            if r["status"] == "accepted" and r.get("enc") and r.get("c01", "equal") == "equal" and not r.get("c04_obl_violation") and not r.get("illformed") and not r.get("c04_wf"):
                if any(e.get("k") in ("?", "cursor?") for e in r["enc"]):
                    continue
                pool.append((res["seed"], r))
    rng.shuffle(pool)
    # prefer distinct ops
    seen = Counter()
    chosen = []
    for sd, r in pool:
        if seen[r["op"]] >= max(1, n_chains // 20):
            continue
        seen[r["op"]] += 1
        chosen.append((sd, r))
        if len(chosen) >= n_chains:
            break
    out = []
    for sd, r in chosen:
        j = dict(jobs_by_seed[sd])
        j["chain"] = [{"op": r["op"], "args": r["enc"]}]
        j["cap"] = max(3, j["cap"] // 3)
        j["budget_s"] = j["budget_s"] / 3
        out.append(j)
    return out


def classify(prop, res, inst):
    """yield violation records of property `prop` from one instance"""
    base = {"property": prop, "seed": res["seed"], "op": inst["op"], "args": inst["args"], "enc": inst.get("enc"), "chain": inst.get("chain_override", res.get("chain")), "q_src": inst.get("q_src"), "p_src": inst.get("p_src_override", res.get("p_src"))}
    for k_ in ("from_composite", "localise", "localise_error", "primitive_steps"):
        if inst.get(k_) is not None:
            base[k_] = inst[k_]
    if prop == "C10" and inst.get("c10_origin_mismatch"):
        rec = dict(base)
        rec.update(kind="origin", detail=inst["c10_origin_mismatch"], summary=f"call_eqv accepted a callee of another origin on {res['seed']}: {inst['c10_origin_mismatch']}", dedup=f"{res['seed']}|origin|{inst['c10_origin_mismatch']}")
        yield rec
    if prop == "C05":
        if inst.get("c01") == "differ":
            rec = dict(base)
            rec.update(kind="semantics", label=inst.get("c01_label"), detail=inst.get("c01_detail"), cex=inst.get("c01_cex"), summary=f"replace{inst['args']} on {res['seed']} is not an instance of the callee: {inst.get('c01_detail')}", dedup=f"{res['seed']}|{inst['args']}|sem")
            yield rec
        for v in inst.get("c04_obl_violation", []) or []:
            rec = dict(base)
            rec.update(kind=v["kind"], where=v["where"], detail=v["replay"], cex=v["cex"], summary=f"replace{inst['args']} on {res['seed']}: call site violates {v['kind']}: {v['replay']}", dedup=f"{res['seed']}|{inst['args']}|{v['kind']}")
            yield rec
        if inst.get("c05_inline") == "differ":
            rec = dict(base)
            rec.update(kind="inline_back", detail=inst.get("c05_inline_detail"), cex=inst.get("c05_inline_cex"), inlined=inst.get("c05_inline_src"), summary=f"inlining the call inserted by replace{inst['args']} on {res['seed']} does not give back the program: {inst.get('c05_inline_detail')}", dedup=f"{res['seed']}|{inst['args']}|inline")
            yield rec
    if prop in ("C01", "C10") and inst.get("c01") == "differ":
        rec = dict(base)
        rec.update(kind="semantics", label=inst.get("c01_label"), detail=inst.get("c01_detail"), cex=inst.get("c01_cex"), reported_cfg=inst.get("reported_cfg"),
                   summary=f"{inst['op']}{inst['args']} on {res['seed']}: {inst.get('c01_detail')}", dedup=f"{res['seed']}|{inst['op']}|{inst.get('c01_label')}")
        yield rec
    if prop == "C04":
        for pr in inst.get("c04_wf", []) or []:
            rec = dict(base)
            rec.update(kind="wellformed", detail=pr, summary=f"{inst['op']}{inst['args']} on {res['seed']}: {pr}", dedup=f"{res['seed']}|{inst['op']}|wf")
            yield rec
        for v in inst.get("c04_obl_violation", []) or []:
            rec = dict(base)
            rec.update(kind=v["kind"], where=v["where"], detail=v["replay"], cex=v["cex"], summary=f"{inst['op']}{inst['args']} on {res['seed']}: {v['kind']} {v['replay']}", dedup=f"{res['seed']}|{inst['op']}|{v['kind']}")
            yield rec
        cc = inst.get("c04_compile")
        if cc and cc != "ok" and inst.get("c04_p_compiles") and cc not in ("MemGenError", "ConfigError", "TypeError", "ParallelAnalysisError"):
            rec = dict(base)
            rec.update(kind="compile_crash", detail=f"{cc}: {inst.get('c04_compile_msg')}", summary=f"{inst['op']}{inst['args']} on {res['seed']}: compile raised undocumented {cc}", dedup=f"{res['seed']}|{inst['op']}|compile|{cc}")
            yield rec
    if prop == "C17" and inst.get("c17") in ("mismatch", "reparse_failed"):
        det = inst.get("c17_alpha") or inst.get("c17_detail") or ("printed form differs after reparse" if not inst.get("c17_text_equal", True) else "")
        rec = dict(base)
        rec.update(kind=inst["c17"], detail=det, behaviour=inst.get("c17_behaviour"), reparsed=inst.get("c17_reparsed"), cex=inst.get("c17_cex"),
                   summary=f"printed text of {inst['op']}{inst['args']} on {res['seed']}: {inst['c17']}: {str(det)[:200]}", dedup=f"{res['seed']}|{inst['op']}|c17|{str(det)[:40]}")
        yield rec
    if prop == "C06":
        for pr in inst.get("c06_problems", []) or []:
            rec = dict(base)
            rec.update(kind="forwarding", detail=pr, summary=f"after {inst['op']}{inst['args']} on {res['seed']}: {pr['problem'][:240]}", dedup=f"{res['seed']}|{inst['op']}|{pr['problem'][:50]}")
            yield rec
    if prop == "C07":
        for b in inst.get("c07_violation", []) or []:
            rec = dict(base)
            rec.update(kind="impure", detail=b, summary=f"{inst['op']}{inst['args']} on {res['seed']} changed existing procedure {b.get('proc')}", dedup=f"{res['seed']}|{inst['op']}|impure")
            yield rec


def run_property(prop, tier, only_seeds=None, only_ops=None):
    t0 = time.time()
    vseed = seed_from_env()
    props = {prop}
    cap_override = None
    if prop == "C10" and not only_seeds:
        only_seeds = seed_names_tagged(["config", "call"])
        if tier == "quick":
            pass  # every config/call seed also in quick
            only_seeds = list(dict.fromkeys(only_seeds))
        cap_override = 14 if tier == "quick" else 40
    if prop == "C05":
        only_ops = ["replace"]
        cap_override = 120 if tier == "quick" else 600
        if not only_seeds:
            only_seeds = seed_names()
    jobs = plan_jobs(props, tier, vseed, only_seeds, only_ops, cap_override)
    if prop in ("C01", "C04", "C07", "C17") and not os.environ.get("VERIF_NO_COMPOSITES"):
        # the standard-library composite schedules (vlib/composites.py), one extra job per seed
        cj0 = []
        for j in jobs:
            j2 = dict(j)
            j2.update(atomic=False, composites=True, composite_cap=3 if tier == "quick" else 10, budget_s=j["budget_s"] * 0.6)
            cj0.append(j2)
        jobs = jobs + cj0
    if prop in ("C01", "C04") and not os.environ.get("VERIF_NO_GRID"):
        # tight schedule grids (vlib/tight_sched.py): complete small grids of numeric arguments for the
        # bounds-/dependence-checked operations, one extra job per seed
        gj = []
        for j in [j for j in jobs if j.get("atomic", True)]:
            j2 = dict(j)
            j2.update(atomic=False, composites=False, grid=True, budget_s=j["budget_s"] * 0.8)
            gj.append(j2)
        jobs = jobs + gj
    if prop == "C05" and not os.environ.get("VERIF_NO_TIGHT"):
        # tight family for replace (corpus/tight_replace.py): exact instances and one-edit near misses
        import corpus.tight_replace as TR

        for nm, _p, _t in TR.TR_SEEDS:
            j = dict(jobs[0])
            j.update(seed_name=nm, extra_corpus="tight_replace", cap=400)
            jobs.append(j)
    results = run_jobs(jobs)
    rng = random.Random(vseed)
    if not only_seeds or tier == "thorough":
        cj = chain_jobs(results, {j["seed_name"]: j for j in jobs if j.get("atomic", True)}, 24 if tier == "quick" else 120, rng)
        res2 = run_jobs(cj) if cj else []
        for j, r in zip(cj, res2):
            r["chain"] = j["chain"]
        results = results + res2
    rep = Reporter(prop)
    stats = Counter()
    ops_acc = Counter()
    samples = []
    errors = []
    solver_s = 0.0
    queries = 0
    unrepro = []
    for res in results:
        errors += [f"{res['seed']}: {e}" for e in res.get("errors", [])]
        solver_s += res.get("stats", {}).get("solver_s", 0.0)
        queries += res.get("stats", {}).get("queries", 0)
        for inst in res["instances"]:
            stats["attempts"] += 1
            stats[inst["status"]] += 1
            if inst["status"] != "accepted":
                if prop == "C07":
                    for v in classify(prop, res, inst):
                        rep.report(v)
                if inst["status"] == "harness_error":
                    errors.append(f"{res['seed']} {inst['op']}{inst['args']}: {inst.get('why')}")
                continue
            ops_acc[inst["op"]] += 1
            if prop in ("C01", "C10", "C05"):
                if not inst.get("tracked_eqv"):
                    stats["not_tracked_equivalent"] += 1
                    continue
                c = inst.get("c01")
                stats[f"c01_{c}"] += 1
                if inst.get("c01_trivial"):
                    stats["c01_trivially_equal"] += 1
                if c == "inconclusive":
                    stats["inconclusive"] += 1
            if prop == "C04":
                stats["obligations"] += inst.get("c04_obls", 0)
                stats["inconclusive"] += 1 if inst.get("c04_inconclusive") else 0
                if inst.get("c04_unreproduced"):
                    unrepro.append({"seed": res["seed"], "op": inst["op"], "args": inst["args"], "what": inst["c04_unreproduced"]})
                if inst.get("c04_unbounded"):
                    stats["c04_unbounded_" + inst["c04_unbounded"]] += 1
                if inst.get("c04_compile"):
                    stats["compiled_" + ("ok" if inst["c04_compile"] == "ok" else "rejected")] += 1
            if prop == "C07":
                stats["c07_requeried"] += 1 if inst.get("c07_requery") else 0
            if prop == "C06":
                stats["c06_" + str(inst.get("c06"))] += 1
                stats["c06_cursors_forwarded"] += inst.get("c06_forwarded", 0)
                stats["c06_cursors_invalidated"] += inst.get("c06_invalid", 0)
                stats["c06_direct_vs_forwarded"] += inst.get("c06_direct_vs_forwarded", 0)
            if prop == "C17":
                stats["c17_" + str(inst.get("c17"))] += 1
                if inst.get("c17_behaviour"):
                    stats["c17_solver_" + inst["c17_behaviour"]] += 1
                if inst.get("c17_behaviour") == "inconclusive":
                    stats["inconclusive"] += 1
            for v in classify(prop, res, inst):
                rep.report(v)
            if len(samples) < 6 and inst.get("q_src") and (len(samples) < 3 or inst["op"] not in [s["op"] for s in samples]):
                samples.append({"seed": res["seed"], "op": inst["op"], "args": inst["args"], "derived": inst["q_src"][:600], "verdict": inst.get("c01"), "reported_cfg": inst.get("reported_cfg"), "queries": inst.get("c01_queries")})
    accepted = stats["accepted"]
    nontrivial = accepted - stats.get("c01_trivially_equal", 0) if prop in ("C01", "C10", "C05") else accepted
    code = rep.finish()
    harness_errs = stats.get("harness_error", 0)
    inconc = stats.get("inconclusive", 0)
    coverage = {
        "programs": accepted,
        "disagreements_checked": len(rep.violations) + sum(v[1] for v in rep.known.values()),
        "samples": samples or [{"note": "no accepted instance"}],
        "evaluations": stats["attempts"],
        "distinct_nontrivial": nontrivial,
        "rule": "one case = one (seed procedure, scheduling op, argument tuple) accepted by the real operation; non-trivial = the derived encoding is not syntactically identical to the original's (a solver query was needed)",
        "seeds": len({j["seed_name"] for j in jobs}),
        "composite_ops_accepted": {k: v for k, v in ops_acc.items() if k.startswith("std.")},
        "chains_depth2": sum(1 for r in results if r.get("chain")),
        "ops_accepted": dict(ops_acc),
        "status_counts": dict(stats),
        "solver_queries": queries,
        "solver_s": round(solver_s, 2),
        "inconclusive": inconc,
        "harness_errors": harness_errs,
        "unreproduced_candidates": unrepro[:10],
        "errors": errors[:20],
        "bounds": jobs[0]["bounds"] if jobs else {},
        "functions_encoded": "the LoopIR of every original and derived procedure (vlib/loopsym.py), regenerated from /repo's live objects on this run",
        "source_hashes": repo_file_hashes(ANCHOR_FILES),
        "known_findings_matched": {k: v[1] for k, v in rep.known.items()},
    }
    assumptions = [
        "sizes in [1,N], index args in [idx_min,idx_max], bools free, buffer contents arbitrary reals, initial config arbitrary (control-typed fields boxed like index args)",
        "reals instead of IEEE floats; integer-typed data has no arithmetic meaning",
        "C04 only: status_counts.c04_unbounded_* report the unbounded variant (sizes / index arguments unbounded, loops summarised by one arbitrary iteration, written configuration fields havoc'd): 'holds' = all safety obligations of the derived procedure valid for ALL sizes; posed for every instance in thorough, a 10% sample in quick; 'inconclusive' is never counted as held",
        "program/schedule quantifiers are covered by the stated family (corpus seeds x introspected ops x generated argument candidates), not by the solver",
        "data multiplication first abstracted by a symmetric uninterpreted function (sound), exact arithmetic on demand",
        "inputs on which the original procedure itself violates a safety obligation are excluded",
    ]
    write_evidence(prop, tier, vseed, "translation_validation", coverage, assumptions, time.time() - t0, len(rep.violations))
    total = max(1, accepted)
    if code == 0 and (inconc + harness_errs) > 0.2 * total:
        print(f"HARNESS: {inconc} inconclusive + {harness_errs} harness errors out of {accepted} accepted instances (> 20%)")
        return common.EXIT_HARNESS
    if accepted == 0:
        print("HARNESS: no accepted instance")
        return common.EXIT_HARNESS
    print(f"{prop} {tier}: {accepted} accepted instances of {stats['attempts']} attempts, {queries} queries, {solver_s:.1f}s solver, {time.time()-t0:.0f}s wall; inconclusive={inconc} harness_errors={harness_errs}")
    return code
