from __future__ import annotations

import argparse
import os
import sys


def main():
    ap = argparse.ArgumentParser()
    sub = ap.add_subparsers(dest="cmd", required=True)
    r = sub.add_parser("run")
    r.add_argument("prop")
    r.add_argument("--tier", default=os.environ.get("VERIF_TIER", "quick"), choices=["quick", "thorough"])
    r.add_argument("--seeds", default=None)
    r.add_argument("--ops", default=None)
    rp = sub.add_parser("replay")
    rp.add_argument("path")
    a = ap.parse_args()
    if a.cmd == "run":
        seeds = a.seeds.split(",") if a.seeds else None
        ops = a.ops.split(",") if a.ops else None
        prop = a.prop.upper()
        if prop in ("C01", "C04", "C07", "C17", "C10", "C05", "C06L2"):
            from .check_sweep import run_property

            # C06L2: only the forwarding sweep (layer 2) of C06, for focused runs on chosen seeds
            sys.exit(run_property("C06" if prop == "C06L2" else prop, a.tier, seeds, ops))
        if prop == "C11":
            from .check_c11 import run

            sys.exit(run(a.tier))
        if prop == "C12":
            from .check_c12 import run

            sys.exit(run(a.tier))
        if prop in ("C02", "C08"):
            from .check_c02 import run

            sys.exit(run(prop, a.tier))
        if prop == "C03":
            from .check_c03 import run

            sys.exit(run(a.tier))
        if prop == "C09":
            from .check_c09 import run

            sys.exit(run(a.tier))
        if prop == "C13":
            from .check_c13 import run

            sys.exit(run(a.tier))
        if prop == "C14":
            from .check_c14 import run

            sys.exit(run(a.tier))
        if prop in ("C06", "C16"):
            from .check_cursors import run

            sys.exit(run(prop, a.tier))
        if prop == "C19":
            from .check_c19 import run

            sys.exit(run(a.tier))
        print(f"unknown property {prop}")
        sys.exit(3)
    if a.cmd == "replay":
        from .replay import replay

        sys.exit(replay(a.path))


if __name__ == "__main__":
    main()
