"""Shared plumbing: evidence files, replay files, known findings, exit codes."""
from __future__ import annotations

import hashlib
import json
import os
import sys
import time
from fractions import Fraction
from pathlib import Path

ROOT = Path(__file__).resolve().parent.parent
REPO = os.environ.get("VERIF_REPO", "/repo")
EVID = Path(os.environ["VERIF_EVID_DIR"]) if os.environ.get("VERIF_EVID_DIR") else ROOT / "evidence"
REPLAYS = ROOT / "replays"
WORK = ROOT / ".work"
KF_FILE = ROOT / "known_findings.json"

EXIT_OK = 0
EXIT_VIOLATION = 1
EXIT_HARNESS = 3


def seed_from_env(default=0):
    try:
        return int(os.environ.get("VERIF_SEED", default))
    except ValueError:
        return default


def ncpu():
    try:
        return max(1, min(16, len(os.sched_getaffinity(0))))
    except Exception:
        return 8


def simple_rational(d: float, single: bool = False) -> Fraction:
    """How every engine reads a floating-point literal: a simple rational (smallest denominator bound from a
    fixed schedule) that rounds to the same float/double.  0.1 is 1/10, 0.3333333333333333 is 1/3, 0.125 is
    1/8.  Both sides of every comparison read literals this way, so the rounding of a literal (as written,
    or as produced by a constant folder) to its precision is never judged; arithmetic itself stays exact."""
    import struct

    if d != d or d in (float("inf"), float("-inf")):
        return Fraction(0)
    if d == 0:
        return Fraction(0)

    def rnd(x):
        return struct.unpack("<f", struct.pack("<f", x))[0] if single else x

    try:
        want = rnd(d)
    except OverflowError:
        return Fraction(d)
    f = Fraction(want)
    for md in (1, 10, 100, 1000, 10**4, 10**5, 10**6, 10**8, 10**10, 10**12):
        q = f.limit_denominator(md)
        try:
            if rnd(float(q)) == want:
                return q
        except OverflowError:
            break
    return f


def sha256_of(path):
    h = hashlib.sha256()
    with open(path, "rb") as f:
        h.update(f.read())
    return h.hexdigest()


def repo_file_hashes(rel_files, repo=None):
    repo = repo or REPO
    out = {}
    for r in rel_files:
        p = Path(repo) / r
        if p.exists():
            out[r] = sha256_of(p)[:16]
    return out


def jsonable(x):
    if isinstance(x, Fraction):
        return str(x)
    if isinstance(x, dict):
        return {str(k): jsonable(v) for k, v in x.items()}
    if isinstance(x, (list, tuple, set, frozenset)):
        return [jsonable(v) for v in x]
    if isinstance(x, (str, int, float, bool)) or x is None:
        return x
    return str(x)


def write_evidence(prop, tier, seed, level, coverage, assumptions, wall_s, violations, extra=None):
    EVID.mkdir(exist_ok=True)
    doc = {
        "property_id": prop,
        "tier": tier,
        "seed": int(seed),
        "level": level,
        "coverage": jsonable(coverage),
        "assumptions": list(assumptions),
        "wall_s": round(float(wall_s), 2),
        "violations": int(violations),
    }
    if extra:
        doc.update(jsonable(extra))
    tmp = EVID / f"{prop}.json.tmp"
    with open(tmp, "w") as f:
        json.dump(doc, f, indent=1, sort_keys=False)
    os.replace(tmp, EVID / f"{prop}.json")


def write_replay(prop, record):
    d = REPLAYS / prop
    d.mkdir(parents=True, exist_ok=True)
    blob = json.dumps(jsonable(record), indent=1, sort_keys=True)
    name = hashlib.sha256(blob.encode()).hexdigest()[:12] + ".json"
    p = d / name
    with open(p, "w") as f:
        f.write(blob)
    return str(p)


# ---------------------------------------------------------------------------
# known findings


def load_known_findings():
    if not KF_FILE.exists():
        return []
    with open(KF_FILE) as f:
        doc = json.load(f)
    return doc.get("findings", [])


def match_known(prop, record):
    """returns the matching 'known' entry or None; 'fixed' entries never match"""
    from . import kf_predicates

    for ent in load_known_findings():
        if ent.get("status") != "known":
            continue
        if prop not in ent.get("properties", [ent.get("property")]):
            continue
        pred = getattr(kf_predicates, ent["predicate"], None)
        if pred is None:
            continue
        try:
            if pred(record):
                return ent
        except Exception:
            continue
    return None


class Reporter:
    """collects violations for one property run; prints the interface lines"""

    def __init__(self, prop):
        self.prop = prop
        self.violations = []  # (record, replay path)
        self.known = {}  # id -> (entry, count, first record)
        self.inconclusive = 0

    def report(self, record):
        ent = match_known(self.prop, record)
        if ent is not None:
            k = ent["id"]
            if k not in self.known:
                self.known[k] = [ent, 0, record]
            self.known[k][1] += 1
            return "known"
        path = write_replay(self.prop, record)
        self.violations.append((record, path))
        return "violation"

    def finish(self):
        for k, (ent, n, rec) in sorted(self.known.items()):
            print(f"KNOWN-FINDING: property={self.prop} {ent['what']} [{n} instance(s) this run; id={k}]")
        seen = set()
        for rec, path in self.violations:
            key = rec.get("dedup") or path
            if key in seen:
                continue
            seen.add(key)
            print(f"VIOLATION property={self.prop} replay={path}")
            if rec.get("summary"):
                print("   " + str(rec["summary"])[:300])
        sys.stdout.flush()
        return EXIT_VIOLATION if self.violations else EXIT_OK
