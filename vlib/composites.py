"""Composite schedules of the standard library (exo.stdlib.stdlib,
exo.stdlib.halide_scheduling_ops, exo.stdlib.scheduling) as extra "operations"
of the schedule sweep.  C01's statement names them explicitly ("any
composition of primitives such as the standard-library schedules").

Each entry: name -> (callable(proc, *args), generator(Cands) -> list of arg tuples).
Argument candidates are built from the same cursor / literal pools as the
atomic operations (sched_enum.Cands).  A rejection is always allowed.
"""
from __future__ import annotations

import itertools
from typing import Any, Callable, Dict, List, Tuple

import exo.API_cursors as PC
from exo.libs.memories import DRAM, DRAM_STACK


def _loops(cs):
    return [s for s in cs.stmts if isinstance(s, PC.ForCursor)]


def _nested_loops(cs):
    return [s for s in _loops(cs) if len(s.body()) >= 1 and isinstance(s.body()[0], PC.ForCursor)]


def _reduces(cs):
    return [s for s in cs.stmts if isinstance(s, PC.ReduceCursor)]


def _assigns(cs):
    return [s for s in cs.stmts if isinstance(s, PC.AssignCursor)]


def _allocs(cs):
    return [s for s in cs.stmts if isinstance(s, PC.AllocCursor)]


def _ifs(cs):
    return [s for s in cs.stmts if isinstance(s, PC.IfCursor)]


def _buf_names(cs):
    return [nm for nm, shp in cs.bufs if shp]


def _x86(cs, names):
    pool = {p.name(): p for p in cs.env.get("X86", [])}
    return [pool[n] for n in names if n in pool]


def _prod(*ls):
    return [tuple(t) for t in itertools.product(*ls)]


def composite_ops() -> Dict[str, Tuple[Callable, Callable]]:
    import exo.stdlib.stdlib as S
    import exo.stdlib.halide_scheduling_ops as H
    import exo.stdlib.scheduling as SC

    ops: Dict[str, Tuple[Callable, Callable]] = {}

    def reg(name, fn, gen):
        ops["std." + name] = (fn, gen)

    reg("interleave_loop", S.interleave_loop, lambda cs: _prod(_loops(cs), [2, 3]) + [(l, 2, True) for l in _loops(cs)])
    reg("hoist_stmt", S.hoist_stmt, lambda cs: [(s,) for s in cs.stmts])
    reg("hoist_from_loop", S.hoist_from_loop, lambda cs: [(l,) for l in _loops(cs)])
    reg("jam_stmt", S.jam_stmt, lambda cs: [(s,) for s in cs.stmts])
    reg("parallelize_reduction", S.parallelize_reduction, lambda cs: _prod(_reduces(cs), [None, 2], [DRAM], [1, 2]))
    reg("parallelize_all_reductions", S.parallelize_all_reductions, lambda cs: _prod(_loops(cs), [None, 2]))
    reg("unroll_and_jam", S.unroll_and_jam, lambda cs: _prod(_nested_loops(cs), [2, 3]))
    reg("unroll_and_jam_parent", S.unroll_and_jam_parent, lambda cs: _prod(_loops(cs), [2]))
    reg("interleave_outer_loop_with_inner_loop", S.interleave_outer_loop_with_inner_loop, lambda cs: [(l, l.body()[0], f) for l in _nested_loops(cs) for f in (2, 3)])
    reg("fission_into_singles", S.fission_into_singles, lambda cs: [(l,) for l in _loops(cs)] + [(b,) for b in cs.blocks if len(b) >= 2][:6])
    reg("tile_loops", S.tile_loops, lambda cs: [([(l, 2)],) for l in _loops(cs)] + [([(l, 2), (l.body()[0], 2)],) for l in _nested_loops(cs)] + [([(l, 2), (l.body()[0], 3)], True) for l in _nested_loops(cs)])
    reg("tile_loops_bottom_up", S.tile_loops_bottom_up, lambda cs: [(l, [2, 2]) for l in _nested_loops(cs)] + [(l, [2]) for l in _loops(cs)])
    reg("auto_stage_mem", S.auto_stage_mem, lambda cs: [(b, nm, "stg", acc) for b in cs.blocks[:10] for nm in _buf_names(cs)[:3] for acc in (False, True)])
    reg("unroll_buffers", S.unroll_buffers, lambda cs: [()])
    reg("unfold_reduce", S.unfold_reduce, lambda cs: [(r,) for r in _reduces(cs)])
    reg("fma_rule", S.fma_rule, lambda cs: [(e,) for e in cs.exprs if isinstance(e, PC.BinaryOpCursor)])
    reg("bound_loop_by_if", S.bound_loop_by_if, lambda cs: [(l,) for l in _loops(cs)])
    reg("undo_divide_and_guard_loop", S.undo_divide_and_guard_loop, lambda cs: [(l,) for l in _loops(cs)])
    reg("unroll_loops", S.unroll_loops, lambda cs: [(), (PC.InvalidCursor(), 2)] + [(l.body(),) for l in _loops(cs)][:3])
    reg("cleanup", S.cleanup, lambda cs: [()])
    reg("reorder_stmt_forward", S.reorder_stmt_forward, lambda cs: [(s,) for s in cs.stmts])
    reg("reorder_stmt_backwards", S.reorder_stmt_backwards, lambda cs: [(s,) for s in cs.stmts])
    reg("divide_loop_recursive", S.divide_loop_recursive, lambda cs: _prod(_loops(cs), [2, 3], ["cut", "guard", "cut_and_guard"]))
    reg("binary_specialize", S.binary_specialize, lambda cs: [(s, e, vals) for s in cs.stmts[:6] for e in (cs.sizes[:1] + cs.idxs[:1]) for vals in ([1, 2], [1, 2, 3])])
    reg("cse", S.cse, lambda cs: [(b, "f32") for b in cs.blocks[:12]])
    reg("dealias", S.dealias, lambda cs: [(s,) for s in _assigns(cs) + _reduces(cs)])
    reg("round_loop", S.round_loop, lambda cs: _prod(_loops(cs), [2, 3], [True, False]))
    reg("cut_loop_and_unroll", S.cut_loop_and_unroll, lambda cs: _prod(_loops(cs), [1, 2], [True, False]))
    reg("parallelize_and_lift_alloc", S.parallelize_and_lift_alloc, lambda cs: _prod(_allocs(cs), [1, 2]))
    reg("parallelize_allocs", S.parallelize_allocs, lambda cs: [(l,) for l in _loops(cs)])
    reg("bind_and_set_expr", S.bind_and_set_expr, lambda cs: [([e], "f32", DRAM) for e in cs.exprs[:10]])
    reg("stage_expr_into_memory", S.stage_expr_into_memory, lambda cs: [([e], "f32", DRAM_STACK) for e in cs.exprs[:10]])
    reg("stage_compute", S.stage_compute, lambda cs: [(b, "f32", DRAM) for b in cs.blocks[:8]])
    reg("ordered_stage_expr", S.ordered_stage_expr, lambda cs: [([e], "tmp", "f32", n) for e in cs.exprs[:8] for n in (1, 2)])

    def vec_cands(cs):
        out = []
        ins = _x86(cs, ["mm256_loadu_ps", "mm256_storeu_ps", "mm256_fmadd_ps", "mm256_mul_ps", "mm256_add_ps", "mm256_setzero_ps", "mm256_broadcast_ss_scalar", "mm256_prefix_store_ps", "mm256_prefix_load_ps"])
        for l in _loops(cs):
            for tail in ("cut", "cut_and_predicate", "predicate", "perfect"):
                out.append((l, 2, "f32", DRAM, [], [], tail))
            out.append((l, 2, "f32", DRAM_STACK, [], [S.fma_rule], "cut"))
            try:
                from exo.libs.memories import AVX2

                out.append((l, 8, "f32", AVX2, ins, [S.fma_rule], "cut_and_predicate"))
                out.append((l, 8, "f32", AVX2, ins, [], "cut"))
            except Exception:
                pass
        return out

    reg("vectorize", S.vectorize, vec_cands)

    def lift_if_cands(cs):
        return _prod(_ifs(cs), [1, 2])

    reg("lift_if", SC.lift_if, lift_if_cands)
    reg("replace_all", SC.replace_all, lambda cs: [([sp], False) for sp in cs.env.get("SUBPROCS", [])] + [(list(cs.env.get("SUBPROCS", [])), False)])

    # Halide-style
    reg("h.tile", H.tile, lambda cs: [(l, l.body()[0], ["io", "ii"], ["jo", "ji"], a, b, perf) for l in _nested_loops(cs) for (a, b) in ((2, 2), (2, 3)) for perf in (True, False)])
    reg("h.split", H.split, lambda cs: [(l, "xo", "xi", f, t) for l in _loops(cs) for f in (2, 3) for t in ("cut", "guard", "perfect")])
    reg("h.compute_at", H.compute_at, lambda cs: [(a, l, wp) for a in _assigns(cs)[:4] for l in _loops(cs)[:6] for wp in (False, True)])
    reg("h.store_at", H.store_at, lambda cs: [(a, l) for a in _allocs(cs)[:4] for l in _loops(cs)[:6]])
    reg("h.compute_and_store_at", H.compute_and_store_at, lambda cs: [(nm, l) for nm in _buf_names(cs)[:3] for l in _loops(cs)[:6]])
    return ops


def composite_candidates(p, name, env, rng, cap):
    from . import sched_enum as SE

    cs = env.get("_cands_cache")
    if cs is None or cs.p is not p:
        cs = SE.Cands(p, env, rng)
        env["_cands_cache"] = cs
    fn, gen = composite_ops()[name]
    try:
        out = list(gen(cs))
    except Exception:
        out = []
    if len(out) > cap:
        rng.shuffle(out)
        out = out[:cap]
    return out
