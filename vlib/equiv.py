"""Tiered solver decision of "procedure q behaves like procedure p".

Tier A  symbolic control + data, data multiplication abstracted by a symmetric
        uninterpreted function (sound: unsat under the abstraction implies unsat
        for real multiplication, because real * is one such function).
Tier B  candidate counterexample from A is replayed with the solver-free
        interpreter (exact arithmetic, real multiplication).  Reproduces ->
        violation.
Tier C  (A was sat but B did not reproduce: the abstraction was too coarse)
        exact real multiplication, symbolic everything, short timeout; then
        exact with the control inputs case-split by the solver (AllSAT over the
        bounded control variables), data still symbolic.
Anything left is inconclusive (never a pass, never a violation).
"""
from __future__ import annotations

import itertools
import time
from dataclasses import dataclass, field
from fractions import Fraction
from typing import Any, Dict, List, Optional

import z3

from . import loopsym as L
from .loopsym import (
    Bounds,
    ConcExec,
    ConcViolation,
    Inputs,
    SymExec,
    TooBig,
    Unsupported,
    concretize,
    copy_conc_args,
    diff_formulas,
    full_ref,
    make_solver,
    run_proc,
    sync_assumptions,
)


@dataclass
class Verdict:
    status: str  # 'equal' | 'differ' | 'inconclusive'
    tier: str = ""
    label: str = ""
    detail: str = ""
    cex: Optional[dict] = None
    queries: int = 0
    solver_s: float = 0.0
    unknowns: int = 0
    trivially_equal: bool = False


def _jsonable(x):
    if isinstance(x, Fraction):
        return str(x)
    if isinstance(x, dict):
        return {str(k): _jsonable(v) for k, v in x.items()}
    if isinstance(x, (list, tuple)):
        return [_jsonable(v) for v in x]
    return x


def cex_to_json(c):
    return {"args": _jsonable(c["args"]), "cfg": _jsonable(c["cfg"])}


class MulAbstraction:
    """context manager switching SymExec's data multiplication to the UF abstraction"""

    m = z3.Function("uf_mul", z3.RealSort(), z3.RealSort(), z3.RealSort())
    dv = z3.Function("uf_div", z3.RealSort(), z3.RealSort(), z3.RealSort())


def _is_num(x):
    return z3.is_rational_value(x) or z3.is_int_value(x)


_orig_data = SymExec.data


def _data_abs(self, e, env, g):
    from exo.core.LoopIR import LoopIR

    if getattr(self, "mul_mode", "exact") == "uf" and isinstance(e, LoopIR.BinOp) and e.op in ("*", "/"):
        a, da = self.data(e.lhs, env, g)
        b, db = self.data(e.rhs, env, g)
        d = L._And(da, db)
        a_s, b_s = z3.simplify(a), z3.simplify(b)
        if e.op == "*":
            if _is_num(a_s) or _is_num(b_s):
                return a * b, d
            return MulAbstraction.m(a, b) + MulAbstraction.m(b, a), d
        else:
            if _is_num(b_s) and not (b_s.numerator_as_long() == 0 if z3.is_rational_value(b_s) else b_s.as_long() == 0):
                return a / b, d
            return MulAbstraction.dv(a, b), d
    return _orig_data(self, e, env, g)


SymExec.data = _data_abs


def run(proc, inputs, solver, tag, mul_mode="uf", log_access=False, argvals=None):
    ex = SymExec(inputs, solver, log_access=log_access)
    ex.mul_mode = mul_mode
    if argvals is None:
        argvals = inputs.instantiate(proc)
    ex.run(proc, argvals, tag)
    stores = [v.store if isinstance(v, L.Ref) else None for v in argvals]
    return L.RunResult(proc, stores, ex.cfg, ex.cfg_written, ex.obls, ex.log, ex.nstmts, ex.nloops, ex.max_unroll, ex.solver_calls)


# ---------------------------------------------------------------------------


def conc_run(proc, cex, check_preds=True, strict=True, check_view=True):
    ex = ConcExec(cfg=cex["cfg"], uf_eval=cex.get("uf"), strict=strict, check_view=check_view)
    args = copy_conc_args(cex["args"])
    if not check_preds:
        saved = proc.preds
        proc = proc.update(preds=[])
    stores = ex.run(proc, args)
    return stores, ex


def conc_compare(p, q, cex, ignore_cfg=(), pos_map=None, idx_map_c=None, q_args=None):
    """replay: returns (differs: bool, description)"""
    try:
        s1, e1 = conc_run(p, cex, check_preds=True)
    except ConcViolation as v:
        return False, f"original itself fails: {v}"
    except ZeroDivisionError:
        return False, "division by zero in the original on replay"
    try:
        if q_args is not None:
            c2 = dict(cex)
            c2["args"] = q_args
        else:
            c2 = cex
        s2, e2 = conc_run(q, c2, check_preds=False)
    except ConcViolation as v:
        return True, f"derived procedure fails where the original runs: {v}"
    except L.IllFormed as v:
        return True, f"derived procedure is ill-formed: {v}"
    except ZeroDivisionError:
        return False, "division by zero in the derived procedure on replay"
    for pos, st1 in enumerate(s1):
        if st1 is None:
            continue
        p2 = pos if pos_map is None else pos_map.get(pos)
        if p2 is None:
            continue
        st2 = s2[p2]
        cells = set(st1.data.keys())
        for idx in sorted(cells):
            v1 = st1.get(idx)
            if v1 is None:
                continue
            idx2 = idx if idx_map_c is None or pos not in idx_map_c else idx_map_c[pos](idx)
            v2 = st2.get(idx2)
            if v2 is None:
                return True, f"arg {pos} cell {idx}: original {v1}, derived undefined"
            if v1 != v2:
                return True, f"arg {pos} cell {idx}: original {v1}, derived {v2}"
    keys = set(e1.cfg) | set(e2.cfg)
    for k in sorted(keys):
        if k in ignore_cfg:
            continue
        a = e1.cfg.get(k, cex["cfg"].get(k, 0))
        b = e2.cfg.get(k, cex["cfg"].get(k, 0))
        if a is None:
            continue
        if a != b:
            return True, f"config {k}: original {a}, derived {b}"
    return False, "no difference on replay"


class ProcCtx:
    """Encoding context of one original procedure p; compare many q against it."""

    def __init__(self, p_ir, bounds: Bounds, timeout_ms=60000, tag=""):
        self.p = p_ir
        self.bounds = bounds
        self.timeout_ms = timeout_ms
        self.inputs = Inputs(p_ir, bounds, tag)
        self.solver, self.pre = make_solver(self.inputs, p_ir, timeout_ms)
        self.r1 = run(p_ir, self.inputs, self.solver, "p_", "uf")
        sync_assumptions(self.solver, self.inputs)
        self.safe_p = [o.formula for o in self.r1.obls if o.kind not in ("unwind", "window_overhang", "alloc_extent")]
        self.r1_exact = None
        self.queries = 0
        self.solver_s = 0.0

    # -- vacuity ----------------------------------------------------------
    def assumptions_sat(self):
        r = self._check([])
        return r == z3.sat

    def _check(self, extra, timeout_ms=None):
        s = self.solver
        s.push()
        if timeout_ms:
            s.set("timeout", timeout_ms)
        s.add(*extra)
        t0 = time.time()
        r = s.check()
        self.solver_s += time.time() - t0
        self.queries += 1
        if timeout_ms:
            s.set("timeout", self.timeout_ms)
        return r

    def _pop(self):
        self.solver.pop()

    def symbolic_run(self, q_ir, tag="q_", mul_mode="uf", argvals=None, log_access=False):
        r = run(q_ir, self.inputs, self.solver, tag, mul_mode, log_access=log_access, argvals=argvals)
        sync_assumptions(self.solver, self.inputs)
        return r

    # -- equivalence --------------------------------------------------------
    def compare(self, q_ir, ignore_cfg=(), pos_map=None, idx_map=None, idx_map_c=None, r2=None,
                q_argvals=None, q_conc_args=None, assume_safe_p=True, extra_assume=()) -> Verdict:
        """q_argvals: symbolic arg values for q (default: same positional inputs)
        q_conc_args: function cex -> concrete args list for q"""
        v = Verdict("equal")
        t_q0, t_s0 = self.queries, self.solver_s
        if r2 is None:
            r2 = self.symbolic_run(q_ir, argvals=q_argvals)
        diffs = diff_formulas(self.inputs, self.r1, r2, ignore_cfg, pos_map, idx_map)
        base = list(extra_assume)
        if assume_safe_p:
            base += self.safe_p
        triv = True
        pending_spurious = []
        for label, f, js in diffs:
            fs = z3.simplify(f)
            if z3.is_false(fs):
                continue
            triv = False
            r = self._check(base + [f])
            if r == z3.unsat:
                self._pop()
                continue
            if r == z3.unknown:
                self._pop()
                pending_spurious.append((label, f, "unknown in tier A"))
                continue
            model = self.solver.model()
            cex = concretize(self.inputs, model)
            self._pop()
            qa = q_conc_args(cex) if q_conc_args else None
            try:
                differs, desc = conc_compare(self.p, q_ir, cex, ignore_cfg, pos_map, idx_map_c, qa)
            except (Unsupported, TooBig) as ex:
                differs, desc = False, f"replay unsupported: {ex}"
            if differs:
                v.status = "differ"
                v.tier = "A+replay"
                v.label = label
                v.detail = desc
                v.cex = cex
                break
            pending_spurious.append((label, f, "abstract counterexample did not replay"))
        if v.status != "differ" and pending_spurious:
            v = self._exact(q_ir, ignore_cfg, pos_map, idx_map, idx_map_c, q_argvals, q_conc_args, base, [p[0] for p in pending_spurious])
        v.trivially_equal = triv and v.status == "equal"
        v.queries = self.queries - t_q0
        v.solver_s = self.solver_s - t_s0
        return v

    def _ctrl_vars(self):
        out = []
        for pos, c in enumerate(self.inputs.ctrl):
            if c is not None:
                out.append(c)
        for k, vv in self.inputs.cfg0.items():
            if z3.is_int(vv) or z3.is_bool(vv):
                out.append(vv)
        return out

    def _exact(self, q_ir, ignore_cfg, pos_map, idx_map, idx_map_c, q_argvals, q_conc_args, base, labels) -> Verdict:
        # C1: fully symbolic, exact multiplication, short timeout
        if self.r1_exact is None:
            self.r1_exact = run(self.p, self.inputs, self.solver, "p_", "exact")
        r2 = run(q_ir, self.inputs, self.solver, "q_", "exact", argvals=q_argvals)
        sync_assumptions(self.solver, self.inputs)
        diffs = [d for d in diff_formulas(self.inputs, self.r1_exact, r2, ignore_cfg, pos_map, idx_map) if d[0] in labels]
        todo = []
        for label, f, js in diffs:
            r = self._check(base + [f], timeout_ms=8000)
            if r == z3.unsat:
                self._pop()
                continue
            if r == z3.sat:
                cex = concretize(self.inputs, self.solver.model())
                self._pop()
                qa = q_conc_args(cex) if q_conc_args else None
                differs, desc = conc_compare(self.p, q_ir, cex, ignore_cfg, pos_map, idx_map_c, qa)
                if differs:
                    return Verdict("differ", "C-exact+replay", label, desc, cex)
                return Verdict("inconclusive", "C-exact", label, "exact counterexample did not replay: " + desc, unknowns=1)
            self._pop()
            todo.append(label)
        if not todo:
            return Verdict("equal", "C-exact")
        # C2: case split over bounded control inputs (solver AllSAT), data symbolic
        cv = self._ctrl_vars()
        s = self.solver
        s.push()
        s.add(*base)
        nvals = 0
        verdict = Verdict("equal", "C-split")
        try:
            while True:
                r = s.check()
                self.queries += 1
                if r != z3.sat:
                    if r == z3.unknown:
                        verdict = Verdict("inconclusive", "C-split", detail="unknown while enumerating control valuations", unknowns=1)
                    break
                m = s.model()
                val = [(c, m.eval(c, model_completion=True)) for c in cv]
                nvals += 1
                if nvals > 600:
                    verdict = Verdict("inconclusive", "C-split", detail="more than 600 control valuations", unknowns=1)
                    break
                s.push()
                s.add(*[c == x for c, x in val])
                sub = val
                inp = self.inputs
                # specialised re-run: control variables replaced by constants
                def spec_args(proc, argvals0):
                    out = []
                    for pos, a in enumerate(proc.args):
                        pass
                    return out
                r1s = _run_subst(self.p, inp, s, "p_", sub, None)
                r2s = _run_subst(q_ir, inp, s, "q_", sub, q_argvals)
                sync_assumptions(s, inp)
                for label, f, js in diff_formulas(inp, r1s, r2s, ignore_cfg, pos_map, idx_map):
                    if label not in todo:
                        continue
                    s.push()
                    s.add(f)
                    t0 = time.time()
                    rr = s.check()
                    self.solver_s += time.time() - t0
                    self.queries += 1
                    if rr == z3.sat:
                        cex = concretize(inp, s.model())
                        s.pop()
                        qa = q_conc_args(cex) if q_conc_args else None
                        differs, desc = conc_compare(self.p, q_ir, cex, ignore_cfg, pos_map, idx_map_c, qa)
                        if differs:
                            verdict = Verdict("differ", "C-split+replay", label, desc, cex)
                        else:
                            verdict = Verdict("inconclusive", "C-split", label, "split counterexample did not replay: " + desc, unknowns=1)
                        break
                    s.pop()
                    if rr == z3.unknown:
                        verdict = Verdict("inconclusive", "C-split", label, "unknown under a fixed control valuation", unknowns=1)
                        break
                s.pop()
                if verdict.status != "equal":
                    break
                s.add(z3.Or(*[c != x for c, x in val]))
        finally:
            s.pop()
        verdict.detail = (verdict.detail + f" [{nvals} control valuations]").strip()
        return verdict

    # -- obligations ----------------------------------------------------------
    def check_obligations(self, q_ir, r2, kinds=None, assume_safe_p=True, skip_kinds=("unwind", "window_overhang", "alloc_extent"), check_view=True, extra_assume=()):
        """returns list of (Obl, cex, desc) for violated+replayed obligations, and count inconclusive"""
        obls = [o for o in r2.obls if o.kind not in skip_kinds and (kinds is None or o.kind in kinds)]
        if not obls:
            return [], 0, 0
        base = (list(self.safe_p) if assume_safe_p else []) + list(extra_assume)
        out = []
        inconc = 0
        # first one query for all; only split when not unsat
        r = self._check(base + [z3.Or(*[z3.Not(o.formula) for o in obls])])
        self._pop()
        if r == z3.unsat:
            return [], 0, len(obls)
        seen_kinds = set()
        for o in obls:
            if o.kind in seen_kinds:
                continue
            r = self._check(base + [z3.Not(o.formula)])
            if r == z3.unsat:
                self._pop()
                continue
            if r == z3.unknown:
                self._pop()
                inconc += 1
                continue
            cex = concretize(self.inputs, self.solver.model())
            self._pop()
            out.append((o, cex))
            seen_kinds.add(o.kind)
        return out, inconc, len(obls)


def _run_subst(proc, inputs: Inputs, solver, tag, sub, argvals0):
    """run `proc` with control inputs replaced by the constants in `sub`"""
    if argvals0 is None:
        argvals0 = inputs.instantiate(proc)
    argvals = []
    for v in argvals0:
        if isinstance(v, L.Ref):
            st = v.store
            st.shape = [z3.simplify(z3.substitute(e, *sub)) if z3.is_expr(e) else e for e in st.shape]
            if st.strides is not None:
                st.strides = [z3.simplify(z3.substitute(e, *sub)) for e in st.strides]
            argvals.append(full_ref(st))
        elif z3.is_expr(v):
            argvals.append(z3.simplify(z3.substitute(v, *sub)))
        else:
            argvals.append(v)
    ex = SymExec(inputs, solver)
    ex.mul_mode = "exact"
    # specialise config reads too
    subd = {str(c): x for c, x in sub}
    orig_read = ex.read_cfg

    def read_cfg(config, fld):
        v = orig_read(config, fld)
        return z3.simplify(z3.substitute(v, *sub))

    ex.read_cfg = read_cfg
    ex.run(proc, argvals, tag)
    stores = [v.store if isinstance(v, L.Ref) else None for v in argvals]
    return L.RunResult(proc, stores, ex.cfg, ex.cfg_written, ex.obls, ex.log, ex.nstmts, ex.nloops, ex.max_unroll, ex.solver_calls)
