"""Expression-level translation validation of simplify (C12).

Old and new LoopIR trees are walked in lock-step (with backtracking over the
structural changes simplify may make: removed `if`, removed loop); for every
pair of corresponding control expressions the path condition PC is collected by
this checker itself and z3 is asked for PC /\\ e_old != e_new over UNBOUNDED
integers (LIA with div/mod by literals).  A removed branch needs PC => cond (or
not cond), a removed loop PC => hi <= lo (or an effect-free body)."""
from __future__ import annotations

import itertools
from dataclasses import dataclass, field
from typing import Any, Dict, List, Optional

import z3

from exo.core.LoopIR import LoopIR, T


class AlignFail(Exception):
    pass


@dataclass
class Obligation:
    kind: str  # 'expr' | 'branch' | 'loop'
    where: str
    pc: list
    old: Any  # z3 term or None
    new: Any
    old_txt: str
    new_txt: str
    formula: Any  # z3 Bool: SAT == violation (excluding pc)


class Enc:
    """z3 encoding of control expressions with an environment Sym -> z3 var"""

    def __init__(self):
        self.vars: Dict[Any, Any] = {}
        self.cfgver: Dict[tuple, int] = {}
        self.cfgvars: Dict[tuple, Any] = {}
        self.n = 0
        self.strides: Dict[tuple, Any] = {}

    def var(self, sym, is_bool=False):
        if sym not in self.vars:
            nm = f"{sym.name()}_{self.n}"
            self.n += 1
            self.vars[sym] = z3.Bool(nm) if is_bool else z3.Int(nm)
        return self.vars[sym]

    def cfg(self, config, fld):
        key = (config.name(), fld)
        ver = self.cfgver.get(key, 0)
        k2 = key + (ver,)
        if k2 not in self.cfgvars:
            t = config.lookup_type(fld)
            nm = f"cfg_{key[0]}_{fld}_v{ver}"
            self.cfgvars[k2] = z3.Bool(nm) if isinstance(t, T.Bool) else z3.Int(nm)
        return self.cfgvars[k2]

    def bump(self, config, fld):
        key = (config.name(), fld)
        self.cfgver[key] = self.cfgver.get(key, 0) + 1

    def e(self, x):
        if isinstance(x, LoopIR.Const):
            if isinstance(x.val, bool):
                return z3.BoolVal(x.val)
            if isinstance(x.val, int):
                return z3.IntVal(x.val)
            raise AlignFail("non-int const in control expr")
        if isinstance(x, LoopIR.Read):
            if x.idx:
                raise AlignFail("indexed read in control expr")
            return self.var(x.name, isinstance(x.type, T.Bool))
        if isinstance(x, LoopIR.USub):
            return -self.e(x.arg)
        if isinstance(x, LoopIR.BinOp):
            a, b = self.e(x.lhs), self.e(x.rhs)
            op = x.op
            if op == "+":
                return a + b
            if op == "-":
                return a - b
            if op == "*":
                return a * b
            if op == "/":
                return a / b
            if op == "%":
                return a % b
            if op == "<":
                return a < b
            if op == ">":
                return a > b
            if op == "<=":
                return a <= b
            if op == ">=":
                return a >= b
            if op == "==":
                return a == b
            if op == "and":
                return z3.And(a, b)
            if op == "or":
                return z3.Or(a, b)
            raise AlignFail(f"op {op}")
        if isinstance(x, LoopIR.ReadConfig):
            return self.cfg(x.config, x.field)
        if isinstance(x, LoopIR.StrideExpr):
            key = (x.name, x.dim)
            if key not in self.strides:
                self.strides[key] = z3.Int(f"stride_{x.name.name()}_{x.dim}_{len(self.strides)}")
            return self.strides[key]
        raise AlignFail(f"expr {type(x).__name__}")


def _is_ctrl(t):
    return isinstance(t, (T.Bool, T.Int, T.Index, T.Size, T.Stride))


class LockStep:
    def __init__(self, old_proc, new_proc):
        self.old = old_proc
        self.new = new_proc
        self.enc = Enc()
        self.obls: List[Obligation] = []
        self.npairs = 0

    # -- expressions ---------------------------------------------------------
    def pair_ctrl(self, eo, en, pc, where):
        self.npairs += 1
        a = self.enc.e(eo)
        b = self.enc.e(en)
        if a.eq(b):
            return
        self.obls.append(Obligation("expr", where, list(pc), a, b, str(eo), str(en), a != b))

    def pair_data(self, eo, en, pc, where):
        """data expressions: descend in parallel, pairing index expressions"""
        if type(eo) is not type(en):
            # simplify folded a data sub-expression (e.g. 0.0 * x); not an index expr -> C01's business
            return
        if isinstance(eo, LoopIR.Read):
            if _is_ctrl(eo.type) and not eo.idx:
                self.pair_ctrl(eo, en, pc, where)
                return
            if eo.name != en.name or len(eo.idx) != len(en.idx):
                raise AlignFail("read target changed")
            for k, (i, j) in enumerate(zip(eo.idx, en.idx)):
                self.pair_ctrl(i, j, pc, f"{where}: index {k} of {eo.name}")
        elif isinstance(eo, LoopIR.BinOp):
            if eo.op != en.op:
                return
            self.pair_data(eo.lhs, en.lhs, pc, where)
            self.pair_data(eo.rhs, en.rhs, pc, where)
        elif isinstance(eo, LoopIR.USub):
            self.pair_data(eo.arg, en.arg, pc, where)
        elif isinstance(eo, LoopIR.Extern):
            for a, b in zip(eo.args, en.args):
                self.pair_data(a, b, pc, where)
        elif isinstance(eo, LoopIR.WindowExpr):
            self.pair_window(eo, en, pc, where)

    def pair_window(self, eo, en, pc, where):
        if eo.name != en.name or len(eo.idx) != len(en.idx):
            raise AlignFail("window changed")
        for k, (a, b) in enumerate(zip(eo.idx, en.idx)):
            if type(a) is not type(b):
                raise AlignFail("window access kind changed")
            if isinstance(a, LoopIR.Point):
                self.pair_ctrl(a.pt, b.pt, pc, f"{where}: window point {k}")
            else:
                self.pair_ctrl(a.lo, b.lo, pc, f"{where}: window lo {k}")
                self.pair_ctrl(a.hi, b.hi, pc, f"{where}: window hi {k}")

    # -- statements ------------------------------------------------------------
    def has_effect(self, stmts):
        for s in stmts:
            if isinstance(s, LoopIR.Pass):
                continue
            if isinstance(s, (LoopIR.For, LoopIR.If)):
                if self.has_effect(s.body) or self.has_effect(getattr(s, "orelse", [])):
                    return True
                continue
            if isinstance(s, (LoopIR.Alloc, LoopIR.WindowStmt)):
                continue
            return True
        return False

    def align(self, old, new, pc):
        """align two statement lists; returns list of obligations or raises AlignFail.
        Works on copies of self.obls so that backtracking is possible."""
        return self._align(list(old), list(new), list(pc))

    def _snapshot(self):
        return (len(self.obls), dict(self.enc.cfgver), self.npairs)

    def _restore(self, snap):
        del self.obls[snap[0] :]
        self.enc.cfgver = dict(snap[1])
        self.npairs = snap[2]

    def _align(self, old, new, pc):
        if not old:
            if new:
                raise AlignFail("new statements without counterpart")
            return
        o = old[0]
        n = new[0] if new else None
        # option 1: pair o with n
        if n is not None and self._same_kind(o, n):
            snap = self._snapshot()
            try:
                pc2 = self._pair(o, n, pc)
                self._align(old[1:], new[1:], pc2)
                return
            except AlignFail:
                self._restore(snap)
        # option 2: o was removed / flattened by simplify
        if isinstance(o, LoopIR.If):
            c = self.enc.e(o.cond)
            options = [(o.body, c, "cond"), (o.orelse, z3.Not(c), "not cond")]
            # try first the branch whose condition is valid under the path condition
            if self._valid(pc, z3.Not(c)) and not self._valid(pc, c):
                options.reverse()
            for branch, need, txt in options:
                snap = self._snapshot()
                try:
                    self.obls.append(Obligation("branch", f"if {o.cond} removed, kept {'body' if need is c else 'orelse'}", list(pc), None, None, str(o.cond), txt, z3.Not(need)))
                    self._align(list(branch) + old[1:], new, pc)
                    return
                except AlignFail:
                    self._restore(snap)
            raise AlignFail(f"cannot align removed if {o.cond}")
        if isinstance(o, LoopIR.For):
            snap = self._snapshot()
            try:
                if self.has_effect(o.body):
                    lo, hi = self.enc.e(o.lo), self.enc.e(o.hi)
                    self.obls.append(Obligation("loop", f"for {o.iter} in ({o.lo}, {o.hi}) removed", list(pc), None, None, f"{o.lo}..{o.hi}", "removed", hi > lo))
                self._align(old[1:], new, pc)
                return
            except AlignFail:
                self._restore(snap)
            raise AlignFail(f"cannot align removed loop {o.iter}")
        if isinstance(o, LoopIR.Pass):
            self._align(old[1:], new, pc)
            return
        raise AlignFail(f"statement {type(o).__name__} has no counterpart")

    def _valid(self, pc, f):
        s = z3.Solver()
        s.set("timeout", 5000)
        s.add(*pc)
        s.add(z3.Not(f))
        return s.check() == z3.unsat

    def _same_kind(self, o, n):
        if type(o) is not type(n):
            return False
        if isinstance(o, (LoopIR.Assign, LoopIR.Reduce, LoopIR.Alloc, LoopIR.WindowStmt)):
            return o.name == n.name
        if isinstance(o, LoopIR.For):
            return o.iter == n.iter
        if isinstance(o, LoopIR.Call):
            return o.f is n.f
        if isinstance(o, LoopIR.WriteConfig):
            return o.config is n.config and o.field == n.field
        return True

    def _pair(self, o, n, pc):
        """pairs o with n, returns the pc for the following statements"""
        where = f"{type(o).__name__} @{o.srcinfo}"
        if isinstance(o, (LoopIR.Assign, LoopIR.Reduce)):
            if len(o.idx) != len(n.idx):
                raise AlignFail("lhs rank changed")
            for k, (i, j) in enumerate(zip(o.idx, n.idx)):
                self.pair_ctrl(i, j, pc, f"{where}: lhs index {k} of {o.name}")
            self.pair_data(o.rhs, n.rhs, pc, where)
            return pc
        if isinstance(o, LoopIR.WriteConfig):
            t = o.config.lookup_type(o.field)
            if _is_ctrl(t):
                self.pair_ctrl(o.rhs, n.rhs, pc, f"{where}: config write")
                val = self.enc.e(o.rhs)
                self.enc.bump(o.config, o.field)
                return pc + [self.enc.cfg(o.config, o.field) == val]
            self.pair_data(o.rhs, n.rhs, pc, where)
            self.enc.bump(o.config, o.field)
            return pc
        if isinstance(o, LoopIR.Pass):
            return pc
        if isinstance(o, LoopIR.If):
            self.pair_ctrl(o.cond, n.cond, pc, f"{where}: condition")
            c = self.enc.e(o.cond)
            w_before = dict(self.enc.cfgver)
            self._align(list(o.body), list(n.body), pc + [c])
            v1 = dict(self.enc.cfgver)
            self.enc.cfgver = dict(w_before)
            if o.orelse or n.orelse:
                self._align(list(o.orelse), list(n.orelse), pc + [z3.Not(c)])
            v2 = dict(self.enc.cfgver)
            # any field written in either branch gets a fresh, unconstrained version afterwards
            for key in set(v1) | set(v2):
                m = max(v1.get(key, 0), v2.get(key, 0))
                self.enc.cfgver[key] = m + (1 if (v1.get(key, 0) != w_before.get(key, 0) or v2.get(key, 0) != w_before.get(key, 0)) else 0)
            return pc
        if isinstance(o, LoopIR.For):
            self.pair_ctrl(o.lo, n.lo, pc, f"{where}: loop lo")
            self.pair_ctrl(o.hi, n.hi, pc, f"{where}: loop hi")
            lo, hi = self.enc.e(o.lo), self.enc.e(o.hi)
            it = self.enc.var(o.iter)
            # fields written in the body are unknown at the top of an iteration
            for key in self._written(o.body):
                self.enc.cfgver[key] = self.enc.cfgver.get(key, 0) + 1
            self._align(list(o.body), list(n.body), pc + [it >= lo, it < hi])
            for key in self._written(o.body):
                self.enc.cfgver[key] = self.enc.cfgver.get(key, 0) + 1
            return pc
        if isinstance(o, LoopIR.Alloc):
            so = o.type.shape() if o.type.is_tensor_or_window() else []
            sn = n.type.shape() if n.type.is_tensor_or_window() else []
            if len(so) != len(sn):
                raise AlignFail("alloc rank changed")
            for k, (i, j) in enumerate(zip(so, sn)):
                self.pair_ctrl(i, j, pc, f"{where}: alloc extent {k} of {o.name}")
            return pc
        if isinstance(o, LoopIR.WindowStmt):
            self.pair_window(o.rhs, n.rhs, pc, where)
            return pc
        if isinstance(o, LoopIR.Call):
            for k, (a, b, fa) in enumerate(zip(o.args, n.args, o.f.args)):
                if _is_ctrl(fa.type):
                    self.pair_ctrl(a, b, pc, f"{where}: call arg {fa.name}")
                elif isinstance(a, LoopIR.WindowExpr) and isinstance(b, LoopIR.WindowExpr):
                    self.pair_window(a, b, pc, f"{where}: call arg {fa.name}")
            for key in self._written(o.f.body):
                self.enc.cfgver[key] = self.enc.cfgver.get(key, 0) + 1
            return pc
        return pc

    def _written(self, stmts):
        out = set()
        for s in stmts:
            if isinstance(s, LoopIR.WriteConfig):
                out.add((s.config.name(), s.field))
            elif isinstance(s, LoopIR.Call):
                out |= self._written(s.f.body)
            for attr in ("body", "orelse"):
                if hasattr(s, attr):
                    out |= self._written(getattr(s, attr))
        return out

    def run(self):
        pc = []
        if len(self.old.args) != len(self.new.args):
            raise AlignFail("signature changed")
        for a, b in zip(self.old.args, self.new.args):
            if a.name != b.name:
                raise AlignFail("argument symbols changed")
            if isinstance(a.type, T.Size):
                pc.append(self.enc.var(a.name) >= 1)
            if a.type.is_tensor_or_window():
                for k, (i, j) in enumerate(zip(a.type.shape(), b.type.shape())):
                    self.pair_ctrl(i, j, pc, f"argument {a.name} extent {k}")
        # assertions: simplify may rewrite them; the old ones are assumed
        for p in self.old.preds:
            pc.append(self.enc.e(p))
        if len(self.old.preds) == len(self.new.preds):
            for k, (a, b) in enumerate(zip(self.old.preds, self.new.preds)):
                # the rewritten assertion must be equivalent under the others
                self.npairs += 1
                ea, eb = self.enc.e(a), self.enc.e(b)
                if not ea.eq(eb):
                    others = [self.enc.e(q) for m, q in enumerate(self.old.preds) if m != k]
                    base = [c for c in pc if not any(c.eq(self.enc.e(q)) for q in self.old.preds)]
                    self.obls.append(Obligation("expr", f"assertion {k}", base + others, ea, eb, str(a), str(b), ea != eb))
        self._align(list(self.old.body), list(self.new.body), pc)
        return self.obls


def eval_ctrl(e, env, cfg):
    """concrete evaluation for replay; env: Sym name string -> value"""
    if isinstance(e, LoopIR.Const):
        return e.val
    if isinstance(e, LoopIR.Read):
        return env[e.name]
    if isinstance(e, LoopIR.USub):
        return -eval_ctrl(e.arg, env, cfg)
    if isinstance(e, LoopIR.BinOp):
        a, b = eval_ctrl(e.lhs, env, cfg), eval_ctrl(e.rhs, env, cfg)
        return {"+": lambda: a + b, "-": lambda: a - b, "*": lambda: a * b, "/": lambda: a // b, "%": lambda: a % b, "<": lambda: a < b, ">": lambda: a > b,
                "<=": lambda: a <= b, ">=": lambda: a >= b, "==": lambda: a == b, "and": lambda: a and b, "or": lambda: a or b}[e.op]()
    raise AlignFail("eval")
