"""F-gen: grammar-based generator of small Exo procedure sources (deterministic
per seed).  Every generated text goes through the real front end; only accepted
ones are model-checked (C03) -- rejected ones are counted."""
from __future__ import annotations

import random

CALLEES = {
    "sp_copy": ("n", ["W1", "R1"]),  # sp_copy(n, dst[n], src[n])
    "sp_fill": ("n>1", ["S", "W1"]),  # sp_fill(n, v, w[n])  assert n > 1
    "sp_zero4": (None, ["W4"]),  # sp_zero4(w[4]) assert stride 1
    "sp_set_at": ("nk", ["W1", "S"]),  # sp_set_at(n, k, x[n], v)
}


class Gen:
    def __init__(self, seed):
        self.r = random.Random(seed)
        self.lines = []
        self.ind = 1
        self.iters = []  # (name, lo, hi-string, is_const_hi)
        self.n_alloc = 0
        self.stmts = 0

    def emit(self, s):
        self.lines.append("    " * self.ind + s)

    def size(self):
        return self.r.choice(["n", "m"])

    def idx_atom(self):
        c = []
        if self.iters:
            c += [it[0] for it in self.iters] * 3
        c += ["k", "0", "1", "2"]
        return self.r.choice(c)

    def idx_expr(self, depth=0):
        r = self.r.random()
        if depth >= 2 or r < 0.35:
            return self.idx_atom()
        if r < 0.55:
            return f"{self.idx_expr(depth+1)} + {self.idx_atom()}"
        if r < 0.65:
            return f"{self.idx_expr(depth+1)} - {self.r.choice(['1', '2', self.idx_atom()])}"
        if r < 0.75:
            return f"{self.r.choice([2, 3, 4])} * {self.idx_atom()}"
        if r < 0.87:
            return f"({self.idx_expr(depth+1)}) / {self.r.choice([2, 3, 4])}"
        return f"({self.idx_expr(depth+1)}) % {self.r.choice([2, 3, 4])}"

    def idx_for(self, dim):
        """an index for a dimension of extent `dim`: mostly plausible, sometimes a near miss"""
        r = self.r.random()
        fits = [it[0] for it in self.iters if it[2] == dim and it[1] in ("0", "1")]
        if fits and r < 0.6:
            return self.r.choice(fits)
        if fits and r < 0.72:
            return f"{self.r.choice(fits)} {self.r.choice(['+', '-'])} 1"
        if dim.isdigit() and r < 0.85:
            return f"({self.idx_expr(1)}) % {dim}"
        if r < 0.9:
            return self.r.choice(["0", f"{dim} - 1"])
        return self.idx_expr()

    def buf_access(self, write=False):
        b = self.r.choice(self.bufs)
        name, dims = b
        return f"{name}[{', '.join(self.idx_for(d) for d in dims)}]"

    def data_expr(self, depth=0):
        r = self.r.random()
        if depth >= 2 or r < 0.4:
            return self.r.choice([self.buf_access(), self.buf_access(), "1.0", "0.5", "2.0"])
        if r < 0.7:
            return f"{self.data_expr(depth+1)} + {self.data_expr(depth+1)}"
        if r < 0.9:
            return f"{self.data_expr(depth+1)} * {self.data_expr(depth+1)}"
        return f"relu({self.data_expr(depth+1)})"

    def cond(self):
        a = self.idx_expr()
        op = self.r.choice(["<", "<=", ">", ">=", "=="])
        b = self.r.choice([self.size(), "k", "0", "2", self.idx_atom()])
        c = f"{a} {op} {b}"
        if self.r.random() < 0.25:
            c += self.r.choice([" and ", " or "]) + f"{self.idx_atom()} {self.r.choice(['<', '>='])} {self.r.choice([self.size(), '1'])}"
        return c

    def stmt(self, depth):
        self.stmts += 1
        r = self.r.random()
        if depth < 3 and r < 0.3 and self.stmts < 9:
            it = self.r.choice(["i", "j", "l"])
            if it in [x[0] for x in self.iters]:
                it = it + "2"
            lo = self.r.choice(["0", "0", "0", "1", "k"])
            hi = self.r.choice([self.size(), self.size(), "4", f"{self.size()} - 1", f"{self.size()} / 2", (self.iters[-1][0] + " + 1") if self.iters else "3"])
            kind = self.r.choice(["seq", "seq", "seq", "par"])
            self.emit(f"for {it} in {kind}({lo}, {hi}):")
            self.iters.append((it, lo, hi))
            self.ind += 1
            for _ in range(self.r.choice([1, 1, 2])):
                self.stmt(depth + 1)
            self.ind -= 1
            self.iters.pop()
        elif depth < 3 and r < 0.42 and self.stmts < 9:
            self.emit(f"if {self.cond()}:")
            self.ind += 1
            self.stmt(depth + 1)
            self.ind -= 1
            if self.r.random() < 0.4:
                self.emit("else:")
                self.ind += 1
                self.stmt(depth + 1)
                self.ind -= 1
        elif r < 0.5 and self.n_alloc < 2:
            self.n_alloc += 1
            nm = f"t{self.n_alloc}"
            dim = self.r.choice(["4", "n", "n + 1", "2"])
            self.emit(f"{nm}: f32[{dim}]")
            self.bufs.append((nm, [dim]))
            self.emit(f"{nm}[{self.idx_for(dim)}] = {self.data_expr()}")
        elif r < 0.58:
            b = self.r.choice([b for b in self.bufs if len(b[1]) == 1] or self.bufs)
            if len(b[1]) == 1:
                wn = f"w{self.stmts}"
                lo = self.idx_expr()
                self.emit(f"{wn} = {b[0]}[{lo}:{lo} + 2]")
                self.emit(f"{wn}[{self.r.choice(['0', '1', '2', self.idx_atom()])}] = {self.data_expr()}")
            else:
                self.emit(f"{self.buf_access()} = {self.data_expr()}")
        elif r < 0.68:
            callee = self.r.choice(list(CALLEES))
            b1 = self.r.choice([b for b in self.bufs if len(b[1]) == 1] or [("x", ["n"])])
            b2 = self.r.choice([b for b in self.bufs if len(b[1]) == 1 and b[0] != b1[0]] or [("y", ["n"])])
            lo = self.r.choice(["0", "1", self.idx_atom()])
            ln = self.r.choice(["n", "n - 1", "2", "4", "n / 2"])
            if callee == "sp_copy":
                self.emit(f"sp_copy({ln}, {b1[0]}[{lo}:{lo} + {ln}], {b2[0]}[0:{ln}])")
            elif callee == "sp_fill":
                self.emit(f"sp_fill({ln}, s, {b1[0]}[{lo}:{lo} + {ln}])")
            elif callee == "sp_zero4":
                self.emit(f"sp_zero4({b1[0]}[{lo}:{lo} + 4])")
            else:
                self.emit(f"sp_set_at({ln}, {self.idx_expr()}, {b1[0]}[{lo}:{lo} + {ln}], s)")
        elif r < 0.8:
            self.emit(f"{self.buf_access()} += {self.data_expr()}")
        else:
            self.emit(f"{self.buf_access()} = {self.data_expr()}")

    def proc(self, name):
        self.bufs = [("x", ["n"]), ("y", [self.r.choice(["n", "m", "n + 2", "4"])])]
        sig = f"def {name}(n: size, m: size, k: index, s: f32, x: f32[n], y: f32[{self.bufs[1][1][0]}]"
        if self.r.random() < 0.5:
            d2 = [self.r.choice(["n", "m"]), self.r.choice(["m", "4"])]
            self.bufs.append(("A", d2))
            sig += f", A: f32[{d2[0]}, {d2[1]}]"
        sig += "):"
        pre = []
        for _ in range(self.r.choice([0, 1, 1, 2])):
            pre.append(self.r.choice(["assert k >= 0", "assert k < n", "assert n >= 2", "assert m >= n", "assert n % 2 == 0", "assert k <= 2", "assert m == 4"]))
        for p in pre:
            self.emit(p)
        for _ in range(self.r.choice([1, 2, 2, 3])):
            self.stmt(0)
        return "@proc\n" + sig + "\n" + "\n".join(self.lines) + "\n"


def generate(seed, count):
    out = []
    for k in range(count):
        g = Gen(f"{seed}-{k}")
        name = f"g{seed}_{k}"
        out.append((name, g.proc(name)))
    return out
