"""Predicates recognising the specific failing input class of each recorded
finding (see known_findings.json).  Each takes the violation record (dict)."""
from __future__ import annotations
