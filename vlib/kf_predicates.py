"""Predicates recognising the specific failing input class of each recorded
finding (see known_findings.json).  Each takes the violation record (dict) and
answers whether that record is an instance of *that* defect: op + the
structural condition on the procedure/arguments that triggers it.  A violation
of the same property by another op, or by the same op on an input outside the
condition, is not matched and is reported as VIOLATION.
"""
from __future__ import annotations

import functools
import json
import re

from exo.core.LoopIR import LoopIR, T


def _key(r):
    return json.dumps([r.get("seed"), r.get("chain"), r.get("op"), r.get("enc")], sort_keys=True, default=str)


_cache = {}


def _ctx(r):
    k = _key(r)
    if k not in _cache:
        from .rebuild import rebuild

        if len(_cache) > 200:
            _cache.clear()
        _cache[k] = rebuild(r)
    return _cache[k]


def _reads_in(node, name, out):
    """collect Read/WindowExpr nodes of `name` under node"""
    if isinstance(node, (LoopIR.Read, LoopIR.WindowExpr)) and (name is None or node.name == name):
        out.append(node)
    for ch in _children(node):
        _reads_in(ch, name, out)
    return out


def _children(n):
    if isinstance(n, LoopIR.Read):
        return list(n.idx)
    if isinstance(n, LoopIR.WindowExpr):
        out = []
        for w in n.idx:
            out += [w.pt] if isinstance(w, LoopIR.Point) else [w.lo, w.hi]
        return out
    if isinstance(n, LoopIR.BinOp):
        return [n.lhs, n.rhs]
    if isinstance(n, LoopIR.USub):
        return [n.arg]
    if isinstance(n, LoopIR.Extern):
        return list(n.args)
    if isinstance(n, (LoopIR.Assign, LoopIR.Reduce)):
        return list(n.idx) + [n.rhs]
    if isinstance(n, LoopIR.WriteConfig):
        return [n.rhs]
    if isinstance(n, LoopIR.If):
        return [n.cond] + list(n.body) + list(n.orelse)
    if isinstance(n, LoopIR.For):
        return [n.lo, n.hi] + list(n.body)
    if isinstance(n, LoopIR.Call):
        return list(n.args)
    if isinstance(n, LoopIR.WindowStmt):
        return [n.rhs]
    if isinstance(n, LoopIR.Alloc):
        return list(n.type.shape()) if n.type.is_tensor_or_window() else []
    return []


def _writes_in(node, out):
    if isinstance(node, (LoopIR.Assign, LoopIR.Reduce)):
        out.append(node.name)
    if isinstance(node, LoopIR.Call):
        for a in node.args:
            if isinstance(a, (LoopIR.Read, LoopIR.WindowExpr)) and a.type.is_numeric():
                out.append(a.name)
    for ch in _children(node):
        if isinstance(ch, LoopIR.stmt):
            _writes_in(ch, out)
    return out


def _uses(node, name):
    return bool(_reads_in(node, name, [])) or (name in _writes_in(node, [])) or _stride_uses(node, name)


def _stride_uses(node, name):
    if isinstance(node, LoopIR.StrideExpr) and node.name == name:
        return True
    return any(_stride_uses(c, name) for c in _children(node))


def _block_and_index(cursor_impl):
    """(list of sibling stmt nodes, index) of a statement cursor"""
    par = cursor_impl.parent()
    attr, idx = cursor_impl._path[-1]
    return getattr(par._node, attr), idx


# ---------------------------------------------------------------------------
# C01


def inline_assign_without_dataflow_check(r):
    """DoInlineAssign only refuses when the same buffer is written later in the
    block.  Matches when the inlined assignment is NOT the benign pattern
    'buffer allocated earlier in the same block, all later reads use the same
    index text, no rhs operand written afterwards'."""
    if r.get("op") != "inline_assign":
        return False
    p, op, args, env = _ctx(r)
    c = args[0]._impl
    s1 = c._node
    sibs, k = _block_and_index(c)
    if r.get("kind") == "compile_crash":
        # the inlined scalar is handed to a sub-procedure: the call then receives an indexed read (f(..., x[i, j]))
        for s in sibs[k + 1 :]:
            for st in _all_stmts([s]):
                if isinstance(st, LoopIR.Call) and any(isinstance(a, LoopIR.Read) and a.name == s1.name for a in st.args):
                    return True
    alloc_here = any(isinstance(s, LoopIR.Alloc) and s.name == s1.name for s in sibs[:k])
    after = sibs[k + 1 :]
    idx_txt = [str(i) for i in s1.idx]
    same_idx = True
    for s in after:
        for rd in _reads_in(s, s1.name, []):
            if isinstance(rd, LoopIR.WindowExpr) or [str(i) for i in rd.idx] != idx_txt:
                same_idx = False
    rhs_names = {rd.name for rd in _reads_in(s1.rhs, None, [])}
    written_after = set()
    for s in after:
        written_after |= set(_writes_in(s, []))
    operand_clobbered = bool(rhs_names & written_after)
    benign = alloc_here and same_idx and not operand_clobbered
    return not benign


def _eval_small(expr, env):
    if isinstance(expr, int):
        return expr
    txt = str(expr).replace("/", "//")
    return eval(txt, {"__builtins__": {}}, dict(env))


def _cex_env(r, p):
    env = {}
    cex = r.get("cex") or {}
    for a, v in zip(p._loopir_proc.args, cex.get("args", [])):
        if not isinstance(v, dict):
            env[a.name.name()] = v
    return env


def divide_with_recompute_zero_outer_or_nonzero_lo(r):
    """divide_with_recompute never checks outer_hi >= 1 nor that the loop starts at 0."""
    if r.get("op") != "divide_with_recompute":
        return False
    p, op, args, env = _ctx(r)
    loop = args[0]._impl._node
    lo_nonzero = not (isinstance(loop.lo, LoopIR.Const) and loop.lo.val == 0)
    if lo_nonzero:
        return True
    try:
        v = _eval_small(args[1], _cex_env(r, p))
        return v < 1
    except NameError:
        # outer_hi mentions an enclosing loop iterator, which starts at 0
        return True
    except Exception:
        return False


def stage_mem_write_only_partial(r):
    """stage_mem on a block that only writes part of the staged window: no load
    phase is emitted but the whole window is stored back.  std.auto_stage_mem(block, buf,
    name, accum) forwards exactly these arguments to stage_mem (same site, same input class)."""
    if r.get("op") not in ("stage_mem", "std.auto_stage_mem"):
        return False
    p, op, args, env = _ctx(r)
    if args[3] is not False:
        return False
    m = re.match(r"(\w+)", args[1])
    if not m:
        return False
    buf = m.group(1)
    blk = [c._node for c in args[0]._impl]
    # the block must not read the buffer (else a load phase exists)
    for s in blk:
        if any(str(rd.name) == buf for rd in _all_reads(s)):
            return False
        if _has_reduce(s, buf):
            return False
    return "undefined" in str(r.get("detail"))


def _all_reads(node, out=None):
    out = [] if out is None else out
    if isinstance(node, (LoopIR.Read, LoopIR.WindowExpr)):
        out.append(node)
    for ch in _children(node):
        _all_reads(ch, out)
    return out


def _has_reduce(node, buf):
    if isinstance(node, LoopIR.Reduce) and str(node.name) == buf:
        return True
    return any(_has_reduce(c, buf) for c in _children(node) if isinstance(c, LoopIR.stmt))


def resize_dim_fold(r):
    """resize_dim(..., fold=True): CheckFoldBuffer misses reads that are the whole right-hand side."""
    if r.get("op") != "resize_dim":
        return False
    p, op, args, env = _ctx(r)
    return args[4] is True


def fuse_loops_different_lo(r):
    """fuse of two loops compares only the upper bounds."""
    if r.get("op") != "fuse":
        return False
    p, op, args, env = _ctx(r)
    a, b = args[0]._impl._node, args[1]._impl._node
    if not (isinstance(a, LoopIR.For) and isinstance(b, LoopIR.For)):
        return False
    return str(a.lo) != str(b.lo)


# ---------------------------------------------------------------------------
# C04


def _binders(stmts):
    return [s for s in stmts if isinstance(s, (LoopIR.Alloc, LoopIR.WindowStmt))]


def delete_config_on_non_config_stmt(r):
    """delete_config accepts any statement cursor and deletes it."""
    if r.get("op") != "delete_config":
        return False
    p, op, args, env = _ctx(r)
    return not isinstance(args[0]._impl._node, LoopIR.WriteConfig)


def _block_nodes_and_rest(block_impl):
    if not hasattr(block_impl, "_range"):
        block_impl = block_impl.as_block()  # a statement cursor denotes the one-statement block
    anchor = block_impl._anchor._node
    sibs = getattr(anchor, block_impl._attr)
    rng = block_impl._range
    return sibs[rng.start : rng.stop], sibs[rng.stop :]


def block_op_hides_binder(r):
    """extract_subproc / add_loop / specialize wrap or move a block that contains an
    Alloc or WindowStmt whose name is still used after the block."""
    if r.get("op") not in ("extract_subproc", "add_loop", "specialize", "replace"):
        return False
    p, op, args, env = _ctx(r)
    blk, rest = _block_nodes_and_rest(args[0]._impl)
    for b in _binders(blk):
        if any(_uses(s, b.name) for s in rest):
            return True
    return False


def reorder_stmts_binder_past_use(r):
    """reorder_stmts moves an Alloc/WindowStmt after a statement that uses it."""
    if r.get("op") != "reorder_stmts":
        return False
    p, op, args, env = _ctx(r)
    blk, rest = _block_nodes_and_rest(args[0]._impl)
    if len(blk) != 2:
        return False
    a, b = blk
    return isinstance(a, (LoopIR.Alloc, LoopIR.WindowStmt)) and _uses(b, a.name)


def loop_rewrite_misses_alloc_shape(r):
    """iterator substitution of loop rewrites does not descend into Alloc shapes:
    a buffer sized by the rewritten loop's iterator keeps the dead iterator."""
    if r.get("op") not in ("divide_loop", "divide_with_recompute", "mult_loops", "shift_loop", "cut_loop", "join_loops", "unroll_loop", "remove_loop"):
        return False
    if r.get("kind") != "wellformed":
        return False
    p, op, args, env = _ctx(r)
    loop = args[0]._impl._node
    if not isinstance(loop, LoopIR.For):
        return False

    def alloc_uses_iter(stmts):
        for s in stmts:
            if isinstance(s, LoopIR.Alloc) and s.type.is_tensor_or_window():
                for h in s.type.shape():
                    if any(rd.name == loop.iter for rd in _all_reads(h)):
                        return True
            for attr in ("body", "orelse"):
                if hasattr(s, attr) and alloc_uses_iter(getattr(s, attr)):
                    return True
        return False

    return alloc_uses_iter(loop.body)


def rewrite_expr_literal_type(r):
    """rewrite_expr replaces a float literal by an int literal (different type); the backend then asserts."""
    if r.get("op") != "rewrite_expr" or r.get("kind") != "compile_crash":
        return False
    p, op, args, env = _ctx(r)
    node = args[0]._impl._node
    # a data-typed literal replaced by an integer literal or an index expression
    if isinstance(node, LoopIR.Const) and node.type.is_real_scalar() and (isinstance(args[1], int) or isinstance(args[1], str)):
        return True
    # the literal divisor of an index `/` or `%` replaced by something that is not a positive literal (only
    # accepted where the context is unreachable or pins the value): the result is no longer quasi-affine
    if isinstance(node, LoopIR.Const) and not node.type.is_real_scalar():
        par = args[0]._impl.parent()._node
        if isinstance(par, LoopIR.BinOp) and par.op in ("/", "%") and par.rhs is node:
            return not (isinstance(args[1], int) and not isinstance(args[1], bool) and args[1] > 0)
        # ... or the literal factor of an index product replaced by a variable (io * 4 -> io * ii)
        if isinstance(par, LoopIR.BinOp) and par.op == "*" and not isinstance(args[1], int):
            other = par.lhs if par.rhs is node else par.rhs
            return not isinstance(other, LoopIR.Const)
    return False


def replace_infers_empty_window(r):
    """replace() unifies a callee whose size argument is not pinned by the replaced
    statements with size 0 and an empty window x[0:0]."""
    if r.get("op") != "replace":
        return False
    if re.search(r"\[\s*0\s*:\s*0\s*[\],]", r.get("q_src") or ""):
        return True
    # the same missing check (size arguments of the inserted call are never required to be >= 1) when the size is
    # the trip count of a replaced loop that may run zero times: for ii in seq(0, n % 2) -> sp_copy(n % 2 + 0, ...)
    return r.get("kind") == "call_size" or str(r.get("detail", "")).startswith("call_size")


def _all_stmts(stmts, out=None):
    out = [] if out is None else out
    for s in stmts:
        out.append(s)
        for attr in ("body", "orelse"):
            if hasattr(s, attr):
                _all_stmts(getattr(s, attr), out)
    return out


def extract_subproc_free_window_alias(r):
    """extract_subproc does not pass names bound by a WindowStmt outside the block:
    the new sub-procedure's body uses the alias as a free variable."""
    if r.get("op") != "extract_subproc":
        return False
    p, op, args, env = _ctx(r)
    blk, rest = _block_nodes_and_rest(args[0]._impl)
    inside = {s.name for s in _all_stmts(blk) if isinstance(s, LoopIR.WindowStmt)}
    aliases = {s.name for s in _all_stmts(p._loopir_proc.body) if isinstance(s, LoopIR.WindowStmt)} - inside
    return any(_uses(s, a) for s in blk for a in aliases)


def fission_splits_binder_from_use(r):
    """fission/autofission at a gap that separates an Alloc/WindowStmt from later uses in the same block."""
    if r.get("op") not in ("fission", "autofission"):
        return False
    p, op, args, env = _ctx(r)
    gap = args[0]._impl
    anchor = gap._anchor
    sibs, k = _block_and_index(anchor)
    cut = k if gap._type.name == "Before" else k + 1
    pre, post = sibs[:cut], sibs[cut:]
    return any(_uses(s, b.name) for b in _binders(pre) for s in post)


def stage_mem_window_use_not_stored_back(r):
    """stage_mem treats WindowExpr uses of the staged buffer (window call arguments,
    WindowStmt aliases) as reads only: writes made through them land in the staging
    buffer and are never copied back."""
    if r.get("op") != "stage_mem":
        return False
    p, op, args, env = _ctx(r)
    m = re.match(r"(\w+)", args[1])
    if not m:
        return False
    buf = m.group(1)
    blk = [c._node for c in args[0]._impl]
    for s in _all_stmts(blk):
        if isinstance(s, LoopIR.Call):
            if any(isinstance(a, LoopIR.WindowExpr) and str(a.name) == buf for a in s.args):
                return True
            if any(isinstance(a, LoopIR.Read) and str(a.name) == buf and a.type.is_numeric() for a in s.args):
                return True
        if isinstance(s, LoopIR.WindowStmt) and str(s.rhs.name) == buf:
            return True
    # ... or the block reaches the staged buffer through an alias declared before it (y = x[6:10, 0:8] ...
    # stage_mem(block using y, 'x[...]')): accesses through the alias are not redirected to the staging buffer
    aliases = set()
    for s in _all_stmts(p._loopir_proc.body):
        if isinstance(s, LoopIR.WindowStmt) and (str(s.rhs.name) == buf or s.rhs.name in aliases):
            aliases.add(s.name)
    if aliases:
        for s in _all_stmts(blk):
            if any(_uses(s, a) for a in aliases):
                return True
    return False


def _syms_by_name(p_ir):
    names = {}
    for s in _all_stmts(p_ir.body):
        if isinstance(s, LoopIR.For):
            names.setdefault(s.iter.name(), set()).add(s.iter)
        if isinstance(s, (LoopIR.Alloc, LoopIR.WindowStmt)):
            names.setdefault(s.name.name(), set()).add(s.name)
    for a in p_ir.args:
        names.setdefault(a.name.name(), set()).add(a.name)
    return names


def simplify_facts_keyed_by_name(r):
    """DoSimplify records facts from guards/loops keyed by the printed variable name: with two
    distinct symbols of the same name a fact about one rewrites the other."""
    if r.get("op") != "simplify":
        return False
    p, op, args, env = _ctx(r)
    return any(len(v) > 1 for v in _syms_by_name(p._loopir_proc).values())


def _has_mod_with_negative_numerator(p_ir):
    found = []

    def neg(e):
        if isinstance(e, LoopIR.BinOp) and e.op == "-":
            return True
        if isinstance(e, LoopIR.USub):
            return True
        if isinstance(e, LoopIR.Const) and isinstance(e.val, int) and e.val < 0:
            return True
        return any(neg(c) for c in _children(e))

    def walk(n):
        if isinstance(n, LoopIR.BinOp) and n.op == "%" and neg(n.lhs):
            found.append(n)
        for c in _children(n):
            walk(c)

    for s in p_ir.body:
        walk(s)
    return bool(found)


def simplify_mod_upper_bound_only(r):
    """modulo_simplification drops `e % m` when e < m is provable, without requiring 0 <= e."""
    if r.get("op") != "simplify":
        return False
    p, op, args, env = _ctx(r)
    return _has_mod_with_negative_numerator(p._loopir_proc)


def join_loops_bodies_differ_in_length(r):
    """LoopIR_Compare zips the two loop bodies: extra statements of the longer one are dropped."""
    if r.get("op") != "join_loops":
        return False
    p, op, args, env = _ctx(r)
    a, b = args[0]._impl._node, args[1]._impl._node
    return len(a.body) != len(b.body)


def bind_expr_on_call_argument(r):
    """bind_expr of a scalar that is passed by reference to a call: the callee's write
    goes to the new temporary."""
    if r.get("op") != "bind_expr":
        return False
    p, op, args, env = _ctx(r)
    c = args[0][0] if isinstance(args[0], list) else args[0]
    return isinstance(c._impl.parent()._node, LoopIR.Call)


def mult_loops_zero_inner(r):
    """mult_loops with a literal inner bound <= 0 produces i / 0 and i % 0."""
    if r.get("op") != "mult_loops":
        return False
    p, op, args, env = _ctx(r)
    outer = args[0]._impl._node
    inner = outer.body[0]
    return isinstance(inner.hi, LoopIR.Const) and inner.hi.val <= 0


def reuse_buffer_same_cursor(r):
    """reuse_buffer(a, a): the allocation is deleted and replaced by itself."""
    if r.get("op") != "reuse_buffer":
        return False
    p, op, args, env = _ctx(r)
    return args[0]._impl._path == args[1]._impl._path


def lift_alloc_shape_uses_crossed_iterator(r):
    """(auto)lift_alloc / sink lifts an allocation whose shape mentions the iterator of a loop it is lifted out of."""
    if r.get("op") not in ("autolift_alloc", "lift_alloc"):
        return False
    p, op, args, env = _ctx(r)
    al = args[0]._impl._node
    if not al.type.is_tensor_or_window():
        return False
    used = {rd.name for h in al.type.shape() for rd in _all_reads(h)}
    cur = args[0]._impl.parent()
    iters = set()
    while isinstance(cur._node, (LoopIR.For, LoopIR.If)):
        if isinstance(cur._node, LoopIR.For):
            iters.add(cur._node.iter)
        cur = cur.parent()
    return bool(used & iters)


def inline_window_of_windowed_alias(r):
    """inline_window of an alias from which another WindowStmt is derived leaves that
    derived window with a stale window type; the backend asserts."""
    if r.get("op") != "inline_window":
        return False
    p, op, args, env = _ctx(r)
    w = args[0]._impl._node
    for s in _all_stmts(p._loopir_proc.body):
        if isinstance(s, LoopIR.WindowStmt) and s is not w and s.rhs.name == w.name:
            return True
    return False


# ---------------------------------------------------------------------------
# C17


def callee_name_equals_variable_name(r):
    """the printer never disambiguates a callee's name from variable names: a sub-procedure
    named like a variable in scope at the call (extract_subproc(..., 'i')) prints `i(x, i)`"""
    if r.get("kind") != "reparse_failed" or "expected called object to be a procedure" not in str(r.get("detail")):
        return False
    src = r.get("q_src") or ""
    calls = set(re.findall(r"^\s*(\w+)\(", src, flags=re.M))
    vars_ = set(re.findall(r"for (\w+) in", src)) | set(re.findall(r"^\s*(\w+)\s*:", src, flags=re.M)) | set(re.findall(r"[(,]\s*(\w+)\s*:", src))
    return bool(calls & vars_)


def bool_or_stride_argument_printed_with_memory(r):
    """a bool/stride argument is printed as `b: bool @ DRAM`, which the parser rejects"""
    if r.get("kind") != "reparse_failed" or "should not be annotated with memory" not in str(r.get("detail")):
        return False
    first = (r.get("q_src") or "").split("):")[0]
    return bool(re.search(r":\s*(bool|stride)\s*@", first))


# ---------------------------------------------------------------------------
# C12


def c12_two_symbols_same_name(r):
    """facts keyed by printed name: the counterexample involves two distinct symbols with the same name"""
    if r.get("op") != "simplify" or r.get("property") != "C12":
        return False
    names = [re.sub(r"_\d+$", "", k) for k in (r.get("assignment") or {})]
    return len(names) != len(set(names))


def c12_mod_dropped_with_negative_numerator(r):
    """e % m replaced by e although e can be negative: values differ by a non-zero multiple of m"""
    if r.get("op") != "simplify" or r.get("property") != "C12" or r.get("kind") != "expr":
        return False
    old, new = str(r.get("old")), str(r.get("new"))
    if old.count("%") <= new.count("%"):
        return False
    ov, nv = r.get("old_value"), r.get("new_value")
    if not isinstance(ov, int) or not isinstance(nv, int) or ov == nv:
        return False
    mods = [int(m) for m in re.findall(r"%\s*(\d+)", old)]
    return any((ov - nv) % m == 0 for m in mods if m > 0)


def c12_fact_survives_config_write(r):
    """a fact Cfg.f == c learnt from a guard is still applied after Cfg.f has been written
    (directly or by a callee): the counterexample involves two versions of the same field"""
    if r.get("op") != "simplify" or r.get("property") != "C12":
        return False
    fields = [re.sub(r"_v\d+$", "", k) for k in (r.get("assignment") or {}) if k.startswith("cfg_")]
    return len(fields) != len(set(fields))


# ---------------------------------------------------------------------------
# C13


def c13_join_none_is_identity(r):
    """IndexRange.__or__ takes the other operand's end when one end is None (unbounded)"""
    return r.get("property") == "C13" and r.get("function") == "join_contains"


def c13_partial_eval_drops_offsets(r):
    """IndexRange.partial_eval_with_range re-analyses only self.base and drops self.lo / self.hi"""
    return r.get("property") == "C13" and r.get("function") == "partial_eval_contains"


# ---------------------------------------------------------------------------
# C03


def _c03_name(r):
    m = re.search(r"(?:read|assign|reduce) (\w+)", str(r.get("detail")))
    return m.group(1) if m else None


def c03_read_inside_extern_argument(r):
    """the bounds checker does not look inside the arguments of extern calls"""
    if r.get("property") != "C03" or r.get("kind") not in ("view_extent", "bounds"):
        return False
    if "read" not in str(r.get("detail")):
        return False
    nm = _c03_name(r)
    src = r.get("src") or ""
    for m in re.finditer(r"\b(relu|select|fmaxf|sin|sigmoid|sqrt|expf)\(", src):
        # text of the call's argument list (balanced)
        depth, k = 0, m.end() - 1
        for k in range(m.end() - 1, len(src)):
            depth += src[k] == "("
            depth -= src[k] == ")"
            if depth == 0:
                break
        if re.search(rf"\b{nm}\[", src[m.end() : k]):
            return True
    return False


def c03_access_through_window_alias(r):
    """accesses through a WindowStmt alias are not checked against the alias' extent"""
    if r.get("property") != "C03" or r.get("kind") not in ("view_extent", "bounds"):
        return False
    nm = _c03_name(r)
    src = r.get("src") or ""
    return bool(nm and re.search(rf"^\s*{nm} = \w+\[", src, flags=re.M))


def c03_window_interval_unchecked(r):
    """the interval of a WindowStmt / window expression is not checked against its source buffer"""
    return r.get("property") == "C03" and r.get("kind") == "window" and "not inside" in str(r.get("detail"))


# ---------------------------------------------------------------------------
# C09


def c09_nested_par_loop_unchecked(r):
    """(fixed) a racy parallel loop that is not a top-level statement"""
    return r.get("property") == "C09"


def autofission_loop_carried_dependency(r):
    """autofission (DoFissionLoops) performs no dependence check: a statement after the gap
    reads or writes a buffer that a statement before the gap writes, and the buffer outlives
    one iteration"""
    if r.get("op") != "autofission" or r.get("property") not in ("C01", "C10"):
        return False
    p, op, args, env = _ctx(r)
    gap = args[0]._impl
    sibs, k = _block_and_index(gap._anchor)
    cut = k if gap._type.name == "Before" else k + 1
    pre, post = list(sibs[:cut]), list(sibs[cut:])
    # with n_lifts > 1 the split is carried outwards: what precedes / follows the enclosing statements, up to
    # the outermost fissioned loop, ends up on either side as well
    try:
        n_lifts = int(args[1]) if len(args) > 1 and not isinstance(args[1], bool) else 1
    except Exception:
        n_lifts = 1
    cur = gap._anchor.parent()
    crossed = 0
    while crossed < n_lifts and len(cur._path) > 0:
        if isinstance(cur._node, LoopIR.For):
            crossed += 1
            if crossed >= n_lifts:
                break
        if len(cur._path) <= 1:
            break  # a top-level statement: its siblings are never split
        sibs2, k2 = _block_and_index(cur)
        pre = list(sibs2[:k2]) + pre
        post = post + list(sibs2[k2 + 1 :])
        cur = cur.parent()
    local = {s.name for s in pre if isinstance(s, LoopIR.Alloc)}
    w_pre = set()
    for s in pre:
        w_pre |= set(_writes_in(s, []))
    uses_post = set()
    for s in post:
        uses_post |= {rd.name for rd in _all_reads(s)} | set(_writes_in(s, []))
    if (w_pre - local) & uses_post:
        return True
    # the same missing check for configuration state: one side writes a field (directly or in a callee)
    # that the other side reads or writes
    def cfg_rw(stmts):
        rd, wr = set(), set()
        for st in _all_stmts(list(stmts)):
            if isinstance(st, LoopIR.WriteConfig):
                wr.add((st.config.name(), st.field))
            if isinstance(st, LoopIR.Call):
                r2, w2 = cfg_rw(st.f.body)
                rd |= r2
                wr |= w2
            for e in _cfg_reads(st):
                rd.add(e)
        return rd, wr

    r1, w1 = cfg_rw(pre)
    r2, w2 = cfg_rw(post)
    return bool((w1 & (r2 | w2)) | (w2 & r1))


def _cfg_reads(node, out=None):
    out = [] if out is None else out
    if isinstance(node, LoopIR.ReadConfig):
        out.append((node.config.name(), node.field))
    for ch in _children(node):
        if not isinstance(ch, LoopIR.stmt):
            _cfg_reads(ch, out)
    if isinstance(node, LoopIR.If):
        _cfg_reads(node.cond, out)
    if isinstance(node, LoopIR.For):
        _cfg_reads(node.lo, out)
        _cfg_reads(node.hi, out)
    return out


def _reduces_in(node, out):
    if isinstance(node, LoopIR.Reduce):
        out.append(node.name)
    if isinstance(node, LoopIR.Call):
        for st in node.f.body:
            sub = []
            _reduces_in(st, sub)
            for fa, a in zip(node.f.args, node.args):
                if fa.name in sub and isinstance(a, (LoopIR.Read, LoopIR.WindowExpr)):
                    out.append(a.name)
    for ch in _children(node):
        if isinstance(ch, LoopIR.stmt):
            _reduces_in(ch, out)
    return out


def fission_idempotent_prefix_reduced_after(r):
    """fission's Commutes_Fissioning accepts `a1 ; a2` -> `loop a1 ; loop a2` when a1 does not mention the
    loop variable and is idempotent, without asking that a2 does not *accumulate* into what a1 writes:
    for i: acc = 0.0 ; for j: acc += ... ; y[i] = acc   is split after `acc = 0.0`."""
    if r.get("op") != "fission" or r.get("property") not in ("C01", "C10"):
        return False
    p, op, args, env = _ctx(r)
    gap = args[0]._impl
    sibs, k = _block_and_index(gap._anchor)
    cut = k if gap._type.name == "Before" else k + 1
    pre, post = sibs[:cut], sibs[cut:]
    loop = gap._anchor.parent()._node
    if not isinstance(loop, LoopIR.For):
        return False
    # the prefix does not mention the loop variable ...
    for s in pre:
        if any(rd.name == loop.iter for rd in _all_reads(s)):
            return False
    # ... writes a buffer that outlives an iteration, which the suffix reduces into
    local = {s.name for s in pre if isinstance(s, LoopIR.Alloc)}
    w_pre = set()
    for s in pre:
        w_pre |= set(_writes_in(s, []))
    red_post = set()
    for s in post:
        red_post |= set(_reduces_in(s, []))
    return bool((w_pre - local) & red_post)


def split_write_rhs_reads_lhs(r):
    """split_write turns x = a + b into x = a; x += b without checking that b does not read x"""
    if r.get("op") != "split_write":
        return False
    p, op, args, env = _ctx(r)
    s = args[0]._impl._node
    rhs = s.rhs
    if not isinstance(rhs, LoopIR.BinOp):
        return False
    return any(rd.name == s.name for rd in _all_reads(rhs.rhs)) or any(rd.name == s.name for rd in _all_reads(rhs.lhs))


# ---------------------------------------------------------------------------
# C05


def replace_ignores_callee_assertions(r):
    """replace() never checks the callee's assertions at the new call site"""
    # the obligation the solver violated may be a consequence (an access inside the callee that the
    # assertion was guarding); the replay names the first thing that fails concretely: the assertion
    return r.get("op") == "replace" and (r.get("kind") == "call_pred" or str(r.get("detail", "")).startswith("call_pred"))


def replace_block_longer_than_callee(r):
    """(fixed) replace of a block longer than the callee body deleted the extra statements"""
    if r.get("op") != "replace":
        return False
    p, op, args, env = _ctx(r)
    return len(args[0]._impl) > len(args[1]._loopir_proc.body)


# ---------------------------------------------------------------------------
# C02 / C08


def c02_callee_name_equals_variable(r):
    """the backend emits a call `i(ctxt, ..., i)` where a variable of the same name is in scope"""
    if r.get("kind") != "c_compile_error":
        return False
    return "is not a function or function pointer" in str(r.get("detail"))


def _c02_program(r):
    """rebuild the procedure of a C02/C08 record"""
    import corpus.seeds as S

    gm = re.fullmatch(r"g(\d+)_(\d+)", str(r.get("seed")))
    if gm:
        from .gen import generate
        from .mutate_src import build_module

        progs = generate(int(gm.group(1)), int(gm.group(2)) + 1)
        mod = build_module("kf_regen", [progs[-1]])
        return mod.PROCS.get(r["seed"])
    if re.fullmatch(r"t[mi]\d+(_\w+)?", str(r.get("seed"))):
        from .tight import mem_family, idx_family
        from .mutate_src import build_module

        fam = [x for x in mem_family() + idx_family() if x[0] == r["seed"]]
        mod = build_module("kf_tight", fam)
        p = mod.PROCS.get(r["seed"])
        if p is not None and str(r.get("program", "")).endswith("+simplify"):
            from exo.stdlib.scheduling import simplify as _simp

            p = _simp(p)
        return p
    p = S.by_name(r["seed"])
    how = r.get("how")
    if how:
        from .rebuild import rebuild

        p0, op, args, env = rebuild({"seed": r["seed"], "chain": None, "op": how["op"], "enc": how["enc"]})
        from .sweep import apply_op

        p, ex, _ = apply_op(op, p0, list(args))
    return p


def c_mod_on_negative_numerator(r):
    """`%` is emitted as C's remainder.  Recognised semantically: re-running the reference
    interpreter with C's truncating remainder for `%` reproduces exactly what the C did
    (the same wrong value at the same address, or the same out-of-bounds access)."""
    d = r.get("detail") or {}
    inputs = d.get("inputs")
    if not inputs:
        return False
    from fractions import Fraction
    from .check_c02 import reference_values
    from . import loopsym as L

    p = _c02_program(r)
    if p is None:
        return False
    orig = L.ConcExec.__init__

    def patched(self, *a, **k):
        k["c_mod"] = True
        orig(self, *a, **k)

    L.ConcExec.__init__ = patched
    try:
        try:
            ref, _cfg = reference_values(p._loopir_proc, inputs)
        except L.ConcViolation as cv:
            return r.get("kind") == "oob" and cv.kind in ("bounds", "view_extent")
        finally:
            L.ConcExec.__init__ = orig
    except Exception:
        return False
    if r.get("kind") == "oob":
        return False
    try:
        addr = int(d.get("address"))
        cval = Fraction(d.get("c_value"))
    except Exception:
        return False
    for pos, vals in ref.items():
        if vals.get(addr) is not None and vals.get(addr) == cval and p._loopir_proc.args[pos].name.name() in str(d.get("what")):
            return True
    return False


def c02_constant_division_folded_as_float(r):
    return r.get("kind") == "c_compile_error" and "array subscript is not an integer" in str(r.get("detail"))


def c02_scalar_in_stack_memory(r):
    return r.get("kind") == "c_compile_error" and "needs an explicit size or an initializer" in str(r.get("detail"))


def bind_expr_on_window_expression(r):
    """bind_expr accepts a WindowExpr (a window call argument) and produces `vnew = x[0:n, j]`,
    an assignment of a window to a scalar; the emitted C is ill-typed"""
    how = r.get("how") or {}
    if how.get("op") != "bind_expr" or r.get("kind") != "c_compile_error":
        return False
    return bool(re.search(r"^\s*\w+ = \w+\[[^\]]*:", r.get("src") or "", flags=re.M))


# ---------------------------------------------------------------------------
# C14 (identified by the instruction and the kind of disagreement)


def _c14(r, instr, kinds=("value",)):
    return r.get("property") == "C14" and r.get("instr") == instr and r.get("kind") in kinds


def c14_instr_prefix_load_zeroes_inactive_lanes(r):
    return _c14(r, "mm256_prefix_load_ps") and "C gives 0.0" in str((r.get("detail") or {}).get("replay"))


def c14_instr_maskz_loadu_zeroes_inactive_lanes(r):
    return _c14(r, "mm512_maskz_loadu_ps") and "C gives 0.0" in str((r.get("detail") or {}).get("replay"))


def c14_instr_mask_fmadd_copies_A(r):
    return _c14(r, "mm512_mask_fmadd_ps") and "out_C" in str((r.get("detail") or {}).get("replay"))


def c14_instr_mask_set1_ignores_mask(r):
    return _c14(r, "mm512_mask_set1_ps") and "out_dst" in str((r.get("detail") or {}).get("replay"))


def c14_instr_mask_storeu_byte_mask(r):
    return _c14(r, "avx2_mask_storeu_ps")


def c14_instr_fmadd_broadcast_illtyped(r):
    return _c14(r, "mm256_fmadd_ps_broadcast", ("c_compile_error", "value"))


# ---------------------------------------------------------------------------
# C06


def add_loop_guard_forwarding_one_level(r):
    """add_loop(guard=True) wraps the block in `for: if:` with a single _wrap call, whose forwarding
    descends one level only: statement cursors land on the new `if`, gaps may dangle"""
    if r.get("property") != "C06" or r.get("op") != "add_loop":
        return False
    p, op, args, env = _ctx(r)
    return args[3] is True


def block_cursor_over_moved_statements(r):
    """Block._forward_move asserts (or yields a block that misses a statement) for a block cursor that
    spans statements moved by the rewrite"""
    if r.get("property") != "C06" or r.get("op") not in ("reorder_stmts", "fission", "autofission", "lift_scope", "reorder_loops", "fuse", "lift_alloc", "autolift_alloc", "sink_alloc", "simplify", "eliminate_dead_code", "merge_writes"):
        return False
    pr = str((r.get("detail") or {}).get("problem"))
    return pr.startswith("block forwarding raised AssertionError") or pr.startswith("block forwarding raised IndexError") or pr.startswith("forwarded block does not contain")


def c17_generated_name_not_reserved(r):
    return r.get("property") == "C17" and r.get("kind") == "mismatch"


def c06_wrap_block_index(r):
    return r.get("property") == "C06" and str((r.get("detail") or {}).get("problem", "")).startswith("block forwarding raised IndexError")


def c17_negated_zero_literal(r):
    """a rewrite substitutes the literal 0 for a negated variable (unroll_loop / shift_loop on `x[-i]`): the tree
    holds USub(Const 0), printed `-0`; the parser reads `-0` as the literal 0, which prints `0`.  Behaviour is
    equal; only the printed form differs after the round trip."""
    return r.get("property") == "C17" and str(r.get("detail", "")).strip() == "expr -0 vs 0" and r.get("behaviour") in ("equal", None)


def reuse_buffer_out_of_scope(r):
    """reuse_buffer(a, b) never checks that a's declaration is in scope where b is declared: two allocations in the
    bodies of sibling loops / branches (vectorize and divide_loop produce them) can be merged, leaving the uses of
    the second one without a declaration"""
    if r.get("op") != "reuse_buffer" or r.get("kind") != "wellformed":
        return False
    p, op, args, env = _ctx(r)
    a, b = args[0]._impl, args[1]._impl
    pa = [tuple(x) for x in a._path[:-1]]
    pb = [tuple(x) for x in b._path[:-1]]
    # a's enclosing block must be b's enclosing block or one of its ancestors ...
    if pb[: len(pa)] != pa:
        return True
    # ... and a must be declared before (the ancestor of) b in that block
    ia = a._path[-1][1]
    ib = b._path[len(pa)][1]
    return not (ia < ib)


def rewrite_expr_after_zero_trip_loop(r):
    """Check_ExprEqvInContext accepts unequal expressions (the literal 7 -> 2 in a call argument) for a statement
    that comes after a loop with equal literal bounds (`for i in seq(0, 0)`, as cut_loop(..., 0) leaves behind)
    whose body reads and writes configuration state"""
    if r.get("op") != "rewrite_expr" or r.get("kind") != "semantics":
        return False
    p, op, args, env = _ctx(r)
    for st in _all_stmts(p._loopir_proc.body):
        if isinstance(st, LoopIR.For) and isinstance(st.lo, LoopIR.Const) and isinstance(st.hi, LoopIR.Const) and st.lo.val == st.hi.val:
            return True
    return False


def c02_stage_mem_of_aliased_buffer(r):
    """stage_mem is not alias-aware (KF15): when the staged buffer has window aliases (w = x[...]; v = w[...]) the
    aliases are re-pointed at the staging buffer but their types still name the old root, so the backend declares
    `v` as a const window although it is written and the C compiler rejects `v.data[...] = ...`; where it does
    compile, writes through the alias are never copied back"""
    if r.get("property") not in ("C02", "C08"):
        return False
    how = r.get("how") or {}
    if how.get("op") != "stage_mem":
        return False
    import corpus.seeds as S

    try:
        p = S.by_name(r["seed"])
    except Exception:
        return False
    m = re.match(r"(\w+)", str((how.get("enc") or [{}, {}])[1].get("v", "")))
    if not m:
        return False
    buf = m.group(1)
    aliases = set()
    for st in _all_stmts(p._loopir_proc.body):
        if isinstance(st, LoopIR.WindowStmt) and (str(st.rhs.name) == buf or st.rhs.name in aliases):
            aliases.add(st.name)
    return bool(aliases)


def c06_block_after_cut_loop_rewrite(r):
    """after cut_loop has duplicated a loop body, a rewrite that replaces statements in both copies (expand_dim,
    extract_subproc) forwards a block cursor of one copy to a block that does not contain the forwarded statement"""
    if r.get("property") != "C06" or r.get("op") not in ("expand_dim", "extract_subproc"):
        return False
    if not any(st.get("op") == "cut_loop" for st in (r.get("chain") or [])):
        return False
    pr = str((r.get("detail") or {}).get("problem"))
    return pr.startswith("forwarded block does not contain")
