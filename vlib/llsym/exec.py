"""llsym -- symbolic executor for the LLVM IR of Exo-generated C (engine E2).

KLEE-style: explicit frames, worklist of states, fork at branches whose condition
is not decided by the path condition (feasibility asked from z3).

Values
  IntV(width, term)   scalar integer: z3 Int (mathematical) / Bool for i1; nsw/nuw
                      arithmetic emits a no-overflow obligation
  RealV(term)         float/double as exact real
  PtrV(alloc, off)    allocation + byte offset (linear z3 Int term)
  VecV(lanes)         lanes are RealV | BVV(width, bitvector) | FBits(bitvector)
  AggV(fields)        struct / array value
Memory
  'cells' allocations (structs, spilled scalars, pointers): dict concrete byte
  offset -> value;  'array' allocations (data buffers, register arrays, locals):
  z3 Array Int -> Real (or Int) indexed by scalar element.
Obligations (C08): allocation live, 0 <= off, off+size <= alloc size, alignment to
  the scalar element, nsw overflow, division by zero, llvm.assume holds, shift
  amount < width, free of a live malloc'd base pointer exactly once, no leak at ret.
"""
from __future__ import annotations

import copy
import itertools
from dataclasses import dataclass, field
from fractions import Fraction
from typing import Any, Dict, List, Optional

import z3

from ..loopsym import uf
from .parse import Function, Instr, Module, Op, Ty, is_fp


class LLUnsupported(Exception):
    """construct outside the modelled subset -> instance inconclusive"""


class LLLimit(Exception):
    pass


# ---------------------------------------------------------------------------
# values


@dataclass
class IntV:
    w: int
    t: Any  # z3 Int, or z3 Bool when w == 1


@dataclass
class RealV:
    t: Any


@dataclass
class BVV:
    w: int
    t: Any  # z3 BitVec


@dataclass
class FBits:
    """a float lane that holds raw bits (from an int->float bitcast)"""

    w: int
    t: Any


@dataclass
class PtrV:
    alloc: Any  # Allocation or None (null)
    off: Any  # z3 Int


@dataclass
class VecV:
    lanes: list


@dataclass
class AggV:
    fields: list


class UndefV:
    def __repr__(self):
        return "undef"


UNDEF = UndefV()

f2b32 = z3.Function("f2b32", z3.RealSort(), z3.BitVecSort(32))
b2f32 = z3.Function("b2f32", z3.BitVecSort(32), z3.RealSort())
f2b64 = z3.Function("f2b64", z3.RealSort(), z3.BitVecSort(64))
b2f64 = z3.Function("b2f64", z3.BitVecSort(64), z3.RealSort())


def simp(t):
    return z3.simplify(t) if z3.is_expr(t) else t


def as_int(t):
    """python int if the term is a numeral"""
    if isinstance(t, int):
        return t
    t = z3.simplify(t)
    if z3.is_int_value(t):
        return t.as_long()
    return None


def ival(v, w=64):
    return IntV(w, z3.IntVal(v))


def to_bool(v: IntV):
    if z3.is_bool(v.t):
        return v.t
    return v.t != 0


def to_int(v: IntV):
    if z3.is_bool(v.t):
        return z3.If(v.t, z3.IntVal(1), z3.IntVal(0))
    return v.t


def wrap_signed(t, w):
    """mathematical integer -> value of a w-bit signed register holding it"""
    m = 1 << w
    return ((t + (m >> 1)) % m) - (m >> 1)


def wrap_unsigned(t, w):
    return t % (1 << w)


# ---------------------------------------------------------------------------
# memory


class Allocation:
    _ctr = itertools.count()

    def __init__(self, kind, name, size_bytes, elem=None, content=None, malloced=False, role="local"):
        self.id = next(Allocation._ctr)
        self.kind = kind  # 'cells' | 'array' | 'untyped'
        self.name = name
        self.size = size_bytes  # z3 Int or int
        self.elem = elem  # ('f', 4) ('f', 8) ('i', n)
        self.content = content
        self.cells: Dict[int, Any] = {}
        self.live = True
        self.malloced = malloced
        self.freed = False
        self.role = role

    def clone(self):
        a = copy.copy(self)
        a.cells = dict(self.cells)
        return a


@dataclass
class Obligation:
    kind: str
    formula: Any  # z3 Bool that must hold under pc
    where: str
    pc: list


@dataclass
class Frame:
    fn: Function
    block: str
    idx: int
    regs: Dict[str, Any]
    prev: Optional[str]
    ret_dst: Optional[str]
    allocas: list


class State:
    def __init__(self):
        self.frames: List[Frame] = []
        self.mem: Dict[int, Allocation] = {}
        self.pc: List[Any] = []
        self.obls: List[Obligation] = []
        self.steps = 0
        self.retval = None

    def fork(self):
        s = State()
        s.frames = [Frame(f.fn, f.block, f.idx, dict(f.regs), f.prev, f.ret_dst, list(f.allocas)) for f in self.frames]
        s.mem = {k: a.clone() for k, a in self.mem.items()}
        s.pc = list(self.pc)
        s.obls = list(self.obls)
        s.steps = self.steps
        return s


# ---------------------------------------------------------------------------


class Executor:
    def __init__(self, mod: Module, solver: z3.Solver, max_paths=256, max_steps=60000):
        self.mod = mod
        self.solver = solver
        self.max_paths = max_paths
        self.max_steps = max_steps
        self.finished: List[State] = []
        self.solver_calls = 0
        self.intrinsics_used = set()
        self.nforks = 0
        self.fresh = itertools.count()

    # ---- layout -----------------------------------------------------------------
    def resolve(self, ty: Ty) -> Ty:
        while ty.k == "named":
            if ty.name not in self.mod.structs:
                raise LLUnsupported(f"unknown named type %{ty.name}")
            ty = self.mod.structs[ty.name]
        return ty

    def sizeof(self, ty: Ty) -> int:
        ty = self.resolve(ty)
        if ty.k == "int":
            return max(1, (ty.bits + 7) // 8)
        if ty.k == "float":
            return 4
        if ty.k == "double":
            return 8
        if ty.k == "half":
            return 2
        if ty.k == "ptr":
            return 8
        if ty.k == "arr":
            return ty.n * self.sizeof(ty.elem)
        if ty.k == "vec":
            return ty.n * self.sizeof(ty.elem)
        if ty.k == "struct":
            off = 0
            packed = ty.name == "packed"
            for f in ty.fields:
                if not packed:
                    a = self.alignof(f)
                    off = (off + a - 1) // a * a
                off += self.sizeof(f)
            a = 1 if packed else self.alignof(ty)
            return (off + a - 1) // a * a
        raise LLUnsupported(f"sizeof {ty}")

    def alignof(self, ty: Ty) -> int:
        ty = self.resolve(ty)
        if ty.k in ("int", "float", "double", "half", "ptr"):
            return min(8, self.sizeof(ty))
        if ty.k == "arr":
            return self.alignof(ty.elem)
        if ty.k == "vec":
            return min(32, self.sizeof(ty))
        if ty.k == "struct":
            if ty.name == "packed":
                return 1
            return max([self.alignof(f) for f in ty.fields] or [1])
        raise LLUnsupported(f"alignof {ty}")

    def field_offset(self, ty: Ty, k: int) -> int:
        ty = self.resolve(ty)
        off = 0
        packed = ty.name == "packed"
        for i, f in enumerate(ty.fields):
            if not packed:
                a = self.alignof(f)
                off = (off + a - 1) // a * a
            if i == k:
                return off
            off += self.sizeof(f)
        raise LLUnsupported("field index")

    def scalar_elem(self, ty: Ty):
        """scalar element descriptor of a data type"""
        ty = self.resolve(ty)
        if ty.k in ("arr", "vec"):
            return self.scalar_elem(ty.elem)
        if ty.k == "float":
            return ("f", 4)
        if ty.k == "double":
            return ("f", 8)
        if ty.k == "half":
            return ("f", 2)
        if ty.k == "int":
            return ("i", max(1, (ty.bits + 7) // 8))
        return None

    # ---- allocation helpers -------------------------------------------------------
    def new_array(self, st: State, name, size_bytes, elem, content=None, malloced=False, role="local"):
        if content is None and elem is not None:
            content = self.fresh_array(name, elem)
        a = Allocation("array" if elem is not None else "untyped", name, size_bytes, elem, content, malloced, role)
        st.mem[a.id] = a
        return a

    def fresh_array(self, name, elem):
        rng = z3.RealSort() if elem[0] == "f" else z3.IntSort()
        return z3.Array(f"{name}#{next(self.fresh)}", z3.IntSort(), rng)

    def new_cells(self, st: State, name, size_bytes, role="local"):
        a = Allocation("cells", name, size_bytes, role=role)
        st.mem[a.id] = a
        return a

    # ---- operand evaluation --------------------------------------------------------
    def const_of_type(self, ty: Ty, zero=True):
        ty = self.resolve(ty)
        if ty.k == "int":
            return IntV(ty.bits, z3.BoolVal(False) if ty.bits == 1 else z3.IntVal(0))
        if is_fp(ty):
            return RealV(z3.RealVal(0))
        if ty.k == "ptr":
            return PtrV(None, z3.IntVal(0))
        if ty.k == "vec":
            return VecV([self.lane_const(ty.elem, 0) for _ in range(ty.n)])
        if ty.k == "arr":
            return AggV([self.const_of_type(ty.elem) for _ in range(ty.n)])
        if ty.k == "struct":
            return AggV([self.const_of_type(f) for f in ty.fields])
        raise LLUnsupported(f"zeroinitializer of {ty}")

    def lane_const(self, ety: Ty, v):
        ety = self.resolve(ety)
        if ety.k == "int":
            return BVV(ety.bits, z3.BitVecVal(v, ety.bits))
        if is_fp(ety):
            return RealV(z3.RealVal(v))
        raise LLUnsupported(f"vector lane type {ety}")

    def to_lane(self, v, ety: Ty):
        ety = self.resolve(ety)
        if isinstance(v, UndefV):
            return UNDEF
        if ety.k == "int":
            if isinstance(v, BVV):
                return v
            if isinstance(v, IntV):
                if ety.bits == 1:
                    b = to_bool(v)
                    return BVV(1, z3.If(b, z3.BitVecVal(1, 1), z3.BitVecVal(0, 1)))
                return BVV(ety.bits, z3.Int2BV(to_int(v), ety.bits))
        if is_fp(ety):
            if isinstance(v, (RealV, FBits)):
                return v
        raise LLUnsupported(f"cannot make a {ety} lane from {type(v).__name__}")

    def from_lane(self, lane, ety: Ty):
        ety = self.resolve(ety)
        if isinstance(lane, UndefV):
            return UNDEF
        if ety.k == "int":
            if isinstance(lane, BVV):
                if ety.bits == 1:
                    return IntV(1, lane.t == z3.BitVecVal(1, 1))
                return IntV(ety.bits, z3.BV2Int(lane.t, is_signed=True))
        if is_fp(ety):
            return self.lane_real(lane)
        raise LLUnsupported("extract lane")

    def lane_real(self, lane) -> RealV:
        if isinstance(lane, RealV):
            return lane
        if isinstance(lane, FBits):
            t = z3.simplify(lane.t)
            if z3.is_bv_value(t) and t.as_long() == 0:
                return RealV(z3.RealVal(0))
            # bits produced from a real by f2b: invert syntactically
            if z3.is_app(t) and t.decl().name() in ("f2b32", "f2b64"):
                return RealV(t.arg(0))
            return RealV((b2f32 if lane.w == 32 else b2f64)(t))
        raise LLUnsupported("float lane")

    def lane_bits(self, lane, w) -> Any:
        """bit-vector view of a lane"""
        if isinstance(lane, BVV):
            return lane.t
        if isinstance(lane, FBits):
            return lane.t
        if isinstance(lane, RealV):
            t = z3.simplify(lane.t)
            if z3.is_rational_value(t) and t.numerator_as_long() == 0:
                return z3.BitVecVal(0, w)
            return (f2b32 if w == 32 else f2b64)(lane.t)
        raise LLUnsupported("lane bits")

    def val(self, op: Op, fr: Frame, st: State):
        ty = self.resolve(op.ty) if op.ty is not None else None
        k = op.k
        if k == "reg":
            if op.v not in fr.regs:
                raise LLUnsupported(f"use of undefined register %{op.v}")
            return fr.regs[op.v]
        if k == "int":
            if ty.k == "int":
                if ty.bits == 1:
                    return IntV(1, z3.BoolVal(bool(op.v)))
                return IntV(ty.bits, z3.IntVal(op.v))
            if ty.k == "ptr" and op.v == 0:
                return PtrV(None, z3.IntVal(0))
            raise LLUnsupported(f"int literal of type {ty}")
        if k == "fp":
            return RealV(z3.RealVal(op.v))
        if k == "null":
            return PtrV(None, z3.IntVal(0))
        if k == "undef":
            if ty.k == "vec":
                return VecV([UNDEF] * ty.n)
            if ty.k in ("struct", "arr"):
                n = len(ty.fields) if ty.k == "struct" else ty.n
                return AggV([UNDEF] * n)
            return UNDEF
        if k == "zero":
            return self.const_of_type(ty)
        if k == "vec":
            lanes = []
            for e in op.v:
                x = self.val(e, fr, st)
                lanes.append(self.to_lane(x, ty.elem))
            return VecV(lanes)
        if k in ("struct", "arr"):
            return AggV([self.val(e, fr, st) for e in op.v])
        if k == "glob":
            return self.global_ptr(op.v, st)
        if k == "cexpr":
            kind = op.v[0]
            if kind == "gep":
                _, bty, base, idx = op.v
                p = self.val(base, fr, st)
                return self.gep(bty, p, [self.val(i, fr, st) for i in idx])
            if kind == "bitcast":
                return self.val(op.v[1], fr, st)
            raise LLUnsupported(f"constant expression {kind}")
        raise LLUnsupported(f"operand kind {k}")

    def global_ptr(self, name, st: State):
        key = ("glob", name)
        for a in st.mem.values():
            if a.role == key:
                return PtrV(a, z3.IntVal(0))
        if name not in self.mod.globals:
            raise LLUnsupported(f"reference to @{name}")
        g = self.mod.globals[name]
        ty = self.resolve(g.ty)
        elem = self.scalar_elem(ty)
        size = self.sizeof(ty)
        if ty.k in ("arr", "vec") or elem is not None and ty.k != "struct":
            a = self.new_array(st, "@" + name, size, elem, role=key)
            # static storage is zero-initialised unless an initializer is given
            zero = z3.K(z3.IntSort(), z3.RealVal(0) if elem[0] == "f" else z3.IntVal(0))
            a.content = zero
            if g.init is not None and g.init.k not in ("zero", "undef"):
                raise LLUnsupported("global initializer")
            return PtrV(a, z3.IntVal(0))
        raise LLUnsupported(f"global @{name} of type {ty}")

    # ---- pointer arithmetic ----------------------------------------------------------
    def gep(self, bty: Ty, p, idxs):
        if not isinstance(p, PtrV):
            raise LLUnsupported("gep on non-pointer")
        off = p.off
        ty = bty
        first = True
        for iv in idxs:
            if not isinstance(iv, IntV):
                raise LLUnsupported("gep index")
            it = to_int(iv)
            if first:
                off = off + it * self.sizeof(ty)
                first = False
                continue
            rty = self.resolve(ty)
            if rty.k == "struct":
                k = as_int(it)
                if k is None:
                    raise LLUnsupported("symbolic struct index")
                off = off + self.field_offset(rty, k)
                ty = rty.fields[k]
            elif rty.k in ("arr", "vec"):
                off = off + it * self.sizeof(rty.elem)
                ty = rty.elem
            else:
                raise LLUnsupported(f"gep into {rty}")
        return PtrV(p.alloc, z3.simplify(off))

    # ---- memory access --------------------------------------------------------------------
    def oblige(self, st: State, kind, formula, where):
        f = z3.simplify(formula) if z3.is_expr(formula) else z3.BoolVal(bool(formula))
        if z3.is_true(f):
            return
        st.obls.append(Obligation(kind, f, where, list(st.pc)))

    def access_check(self, st: State, p: PtrV, nbytes: int, where, write=False):
        if p.alloc is None:
            self.oblige(st, "null_deref", z3.BoolVal(False), where)
            raise LLUnsupported("null dereference")
        a = st.mem[p.alloc.id]
        if not a.live:
            self.oblige(st, "use_after_free" if a.freed else "dead_stack", z3.BoolVal(False), where)
        size = a.size if z3.is_expr(a.size) else z3.IntVal(a.size)
        self.oblige(st, "oob", z3.And(p.off >= 0, p.off + nbytes <= size), where)
        return a

    def elem_index(self, st, a: Allocation, off, esz, where):
        """off (bytes) / esz, with an alignment obligation unless syntactically a multiple"""
        off = z3.simplify(off)
        k = as_int(off)
        if k is not None:
            if k % esz != 0:
                self.oblige(st, "misaligned", z3.BoolVal(False), where)
            return z3.IntVal(k // esz)
        # linear form: all coefficients divisible?
        q = self.div_exact(off, esz)
        if q is not None:
            return q
        self.oblige(st, "misaligned", off % esz == 0, where)
        return off / esz

    def div_exact(self, t, d):
        """t / d when t is syntactically a sum of products with constant factors divisible by d"""
        if d == 1:
            return t
        if z3.is_int_value(t):
            v = t.as_long()
            return z3.IntVal(v // d) if v % d == 0 else None
        if z3.is_add(t):
            parts = [self.div_exact(c, d) for c in t.children()]
            if any(p is None for p in parts):
                return None
            return z3.simplify(z3.Sum(*parts))
        if z3.is_mul(t):
            ch = t.children()
            for i, c in enumerate(ch):
                if z3.is_int_value(c) and c.as_long() % d == 0:
                    rest = [x for j, x in enumerate(ch) if j != i]
                    q = c.as_long() // d
                    r = rest[0]
                    for x in rest[1:]:
                        r = r * x
                    return z3.simplify(q * r) if q != 1 else r
            return None
        return None

    def ensure_typed(self, a: Allocation, elem):
        if a.kind == "untyped":
            a.kind = "array"
            a.elem = elem
            a.content = self.fresh_array(a.name, elem)

    def load(self, st: State, ty: Ty, p, where):
        ty = self.resolve(ty)
        if not isinstance(p, PtrV):
            raise LLUnsupported("load from non-pointer")
        nbytes = self.sizeof(ty)
        a = self.access_check(st, p, nbytes, where)
        if a.kind == "cells":
            off = as_int(p.off)
            if off is None:
                raise LLUnsupported("symbolic offset into a struct allocation")
            return self.load_cells(st, a, off, ty, where)
        elem = self.scalar_elem(ty)
        if elem is None:
            raise LLUnsupported(f"load of {ty} from a data buffer")
        self.ensure_typed(a, elem)
        if a.elem != elem:
            raise LLUnsupported(f"access of {a.name} ({a.elem}) as {elem}")
        idx = self.elem_index(st, a, p.off, elem[1], where)
        return self.load_array(a, idx, ty)

    def load_array(self, a, idx, ty):
        ty = self.resolve(ty)
        if ty.k in ("vec", "arr"):
            n = ty.n
            sub = self.resolve(ty.elem)
            per = self.count_scalars(sub)
            items = [self.load_array(a, z3.simplify(idx + k * per), sub) for k in range(n)]
            if ty.k == "vec":
                return VecV([self.to_lane(x, ty.elem) for x in items])
            return AggV(items)
        v = z3.Select(a.content, idx)
        if a.elem[0] == "f":
            return RealV(v)
        return IntV(a.elem[1] * 8, v)

    def count_scalars(self, ty):
        ty = self.resolve(ty)
        if ty.k in ("vec", "arr"):
            return ty.n * self.count_scalars(ty.elem)
        return 1

    def load_cells(self, st, a: Allocation, off: int, ty: Ty, where):
        ty = self.resolve(ty)
        if ty.k == "struct":
            return AggV([self.load_cells(st, a, off + self.field_offset(ty, k), f, where) for k, f in enumerate(ty.fields)])
        if ty.k == "arr":
            es = self.sizeof(ty.elem)
            return AggV([self.load_cells(st, a, off + k * es, ty.elem, where) for k in range(ty.n)])
        if off not in a.cells:
            self.oblige(st, "uninit_read", z3.BoolVal(False), where + f" (cell {off} of {a.name})")
            return UNDEF
        v, n = a.cells[off]
        if n != self.sizeof(ty):
            raise LLUnsupported(f"cell at {off} of {a.name} has {n} bytes, read as {ty}")
        return v

    def store(self, st: State, v, ty: Ty, p, where):
        ty = self.resolve(ty)
        if not isinstance(p, PtrV):
            raise LLUnsupported("store to non-pointer")
        nbytes = self.sizeof(ty)
        a = self.access_check(st, p, nbytes, where, write=True)
        if a.kind == "cells":
            off = as_int(p.off)
            if off is None:
                raise LLUnsupported("symbolic offset into a struct allocation")
            self.store_cells(a, off, v, ty)
            return
        elem = self.scalar_elem(ty)
        if elem is None:
            raise LLUnsupported(f"store of {ty} to a data buffer")
        self.ensure_typed(a, elem)
        if a.elem != elem:
            raise LLUnsupported(f"access of {a.name} ({a.elem}) as {elem}")
        idx = self.elem_index(st, a, p.off, elem[1], where)
        self.store_array(a, idx, v, ty)

    def store_array(self, a, idx, v, ty, guard=None):
        ty = self.resolve(ty)
        if ty.k in ("vec", "arr"):
            sub = self.resolve(ty.elem)
            per = self.count_scalars(sub)
            items = v.lanes if isinstance(v, VecV) else v.fields
            for k, x in enumerate(items):
                if ty.k == "vec":
                    x = self.from_lane(x, ty.elem)
                self.store_array(a, z3.simplify(idx + k * per), x, sub, guard)
            return
        if isinstance(v, UndefV):
            t = z3.FreshConst(z3.RealSort() if a.elem[0] == "f" else z3.IntSort(), "undef")
        elif a.elem[0] == "f":
            if not isinstance(v, RealV):
                raise LLUnsupported("store of non-real into float buffer")
            t = v.t
        else:
            if not isinstance(v, IntV):
                raise LLUnsupported("store of non-int into int buffer")
            t = to_int(v)
        if guard is not None:
            t = z3.If(guard, t, z3.Select(a.content, idx))
        a.content = z3.Store(a.content, idx, t)

    def store_cells(self, a: Allocation, off: int, v, ty: Ty):
        ty = self.resolve(ty)
        if ty.k == "struct":
            if isinstance(v, UndefV):
                return
            for k, f in enumerate(ty.fields):
                self.store_cells(a, off + self.field_offset(ty, k), v.fields[k], f)
            return
        if ty.k == "arr":
            es = self.sizeof(ty.elem)
            if isinstance(v, UndefV):
                return
            for k in range(ty.n):
                self.store_cells(a, off + k * es, v.fields[k], ty.elem)
            return
        a.cells[off] = (v, self.sizeof(ty))

    # ---- exploration ---------------------------------------------------------------------
    def feasible(self, st: State, cond):
        s = self.solver
        s.push()
        s.add(*st.pc)
        s.add(cond)
        self.solver_calls += 1
        r = s.check()
        s.pop()
        if r == z3.unknown:
            raise LLUnsupported("unknown while deciding branch feasibility")
        return r == z3.sat

    def run(self, entry: str, args: list, st: State):
        fn = self.mod.functions[entry]
        self.push_frame(st, fn, args, None)
        work = [st]
        while work:
            s = work.pop()
            try:
                new = self.run_state(s)
            except LLLimit:
                raise
            work.extend(new)
            if len(self.finished) + len(work) > self.max_paths:
                raise LLLimit(f"more than {self.max_paths} paths")
        return self.finished

    def push_frame(self, st: State, fn: Function, args, ret_dst):
        regs = {}
        if len(args) != len(fn.params):
            raise LLUnsupported(f"call of {fn.name} with {len(args)} args")
        fr = Frame(fn, fn.order[0], 0, regs, None, ret_dst, [])
        for prm, a in zip(fn.params, args):
            if prm.byval is not None:
                # callee receives a pointer to a private copy of the struct
                sz = self.sizeof(prm.byval)
                cp = self.new_cells(st, f"byval.{fn.name}.{prm.name}", sz)
                src = st.mem[a.alloc.id]
                base = as_int(a.off)
                if src.kind != "cells" or base is None:
                    raise LLUnsupported("byval source")
                for off, (v, n) in src.cells.items():
                    if base <= off < base + sz:
                        cp.cells[off - base] = (v, n)
                fr.allocas.append(cp)
                regs[prm.name] = PtrV(cp, z3.IntVal(0))
            else:
                regs[prm.name] = a
        st.frames.append(fr)

    def run_state(self, st: State):
        """run until the state finishes or forks; returns list of successor states"""
        while True:
            st.steps += 1
            if st.steps > self.max_steps:
                raise LLLimit(f"more than {self.max_steps} steps on one path")
            fr = st.frames[-1]
            ins = fr.fn.blocks[fr.block][fr.idx]
            fr.idx += 1
            op = ins.op
            if op == "br":
                if len(ins.args) == 1:
                    self.jump(fr, ins.args[0])
                    continue
                c = self.val(ins.args[0], fr, st)
                cb = z3.simplify(to_bool(c))
                if z3.is_true(cb):
                    self.jump(fr, ins.args[1])
                    continue
                if z3.is_false(cb):
                    self.jump(fr, ins.args[2])
                    continue
                t_ok = self.feasible(st, cb)
                f_ok = self.feasible(st, z3.Not(cb))
                if t_ok and f_ok:
                    self.nforks += 1
                    other = st.fork()
                    st.pc.append(cb)
                    self.jump(st.frames[-1], ins.args[1])
                    other.pc.append(z3.Not(cb))
                    self.jump(other.frames[-1], ins.args[2])
                    return [st, other]
                if t_ok:
                    st.pc.append(cb)
                    self.jump(fr, ins.args[1])
                    continue
                if f_ok:
                    st.pc.append(z3.Not(cb))
                    self.jump(fr, ins.args[2])
                    continue
                return []  # infeasible path
            if op == "switch":
                raise LLUnsupported("switch")
            if op == "ret":
                rv = self.val(ins.args[0], fr, st) if ins.args else None
                for a in fr.allocas:
                    st.mem[a.id].live = False
                st.frames.pop()
                if not st.frames:
                    st.retval = rv
                    # leaks: every malloc'd allocation must have been freed
                    for a in st.mem.values():
                        if a.malloced and not a.freed:
                            self.oblige(st, "leak", z3.BoolVal(False), f"{a.name} never freed")
                    self.finished.append(st)
                    return []
                caller = st.frames[-1]
                if fr.ret_dst is not None:
                    caller.regs[fr.ret_dst] = rv
                continue
            if op == "unreachable":
                self.oblige(st, "unreachable", z3.BoolVal(False), ins.text)
                return []
            if op == "call":
                r = self.call(ins, fr, st)
                if r == "entered":
                    continue
                continue
            self.simple(ins, fr, st)

    def jump(self, fr: Frame, label: str):
        fr.prev = fr.block
        fr.block = label
        fr.idx = 0
        # phis are evaluated simultaneously on entry
        blk = fr.fn.blocks[label]
        vals = {}
        k = 0
        while k < len(blk) and blk[k].op == "phi":
            ins = blk[k]
            chosen = None
            for v, lab in ins.args:
                if lab == fr.prev or (lab not in fr.fn.blocks and fr.prev == fr.fn.order[0]):
                    chosen = v
            if chosen is None:
                raise LLUnsupported(f"phi without incoming edge from {fr.prev}")
            vals[ins.dst] = chosen
            k += 1
        resolved = {d: self.val(v, fr, None) for d, v in vals.items()}
        fr.regs.update(resolved)
        fr.idx = k

    # ---- non-control instructions ------------------------------------------------------------
    def simple(self, ins: Instr, fr: Frame, st: State):
        op = ins.op
        if op == "alloca":
            ty = self.resolve(ins.ty)
            if ins.extra is not None:
                cnt = self.val(ins.extra, fr, st)
                n = as_int(to_int(cnt))
                if n is None:
                    raise LLUnsupported("variable-length alloca with symbolic size")
                ty = Ty("arr", elem=ty, n=n)
            size = self.sizeof(ty)
            elem = self.scalar_elem(ty)
            rty = self.resolve(ty)
            if rty.k in ("struct", "ptr") or (rty.k == "arr" and self.resolve(rty.elem).k in ("struct", "ptr")):
                a = self.new_cells(st, f"%{ins.dst}.{fr.fn.name}", size)
            else:
                a = self.new_array(st, f"%{ins.dst}.{fr.fn.name}", size, elem)
            fr.allocas.append(a)
            fr.regs[ins.dst] = PtrV(a, z3.IntVal(0))
            return
        if op == "load":
            p = self.val(ins.args[0], fr, st)
            fr.regs[ins.dst] = self.load(st, ins.ty, p, ins.text)
            return
        if op == "store":
            v = self.val(ins.args[0], fr, st)
            p = self.val(ins.args[1], fr, st)
            self.store(st, v, ins.args[0].ty, p, ins.text)
            return
        if op == "getelementptr":
            p = self.val(ins.args[0], fr, st)
            idx = [self.val(a, fr, st) for a in ins.args[1:]]
            fr.regs[ins.dst] = self.gep(ins.ty, p, idx)
            return
        if op in ("bitcast", "addrspacecast"):
            fr.regs[ins.dst] = self.bitcast(self.val(ins.args[0], fr, st), ins.args[0].ty, ins.ty)
            return
        if op in ("sext", "zext", "trunc", "fpext", "fptrunc", "sitofp", "uitofp", "fptosi", "fptoui", "ptrtoint", "inttoptr"):
            fr.regs[ins.dst] = self.cast(op, self.val(ins.args[0], fr, st), ins.args[0].ty, ins.ty, st, ins)
            return
        if op in ("add", "sub", "mul", "sdiv", "srem", "udiv", "urem", "shl", "lshr", "ashr", "and", "or", "xor"):
            a = self.val(ins.args[0], fr, st)
            b = self.val(ins.args[1], fr, st)
            same = ins.args[0].k == "reg" and ins.args[1].k == "reg" and ins.args[0].v == ins.args[1].v
            fr.regs[ins.dst] = self.int_binop(op, a, b, ins, st, same)
            return
        if op in ("fadd", "fsub", "fmul", "fdiv"):
            a = self.val(ins.args[0], fr, st)
            b = self.val(ins.args[1], fr, st)
            fr.regs[ins.dst] = self.fp_binop(op, a, b)
            return
        if op == "fneg":
            a = self.val(ins.args[0], fr, st)
            fr.regs[ins.dst] = self.map_fp(lambda x: -x, a)
            return
        if op == "icmp":
            a = self.val(ins.args[0], fr, st)
            b = self.val(ins.args[1], fr, st)
            fr.regs[ins.dst] = self.icmp(ins.extra, a, b, ins.ty)
            return
        if op == "fcmp":
            a = self.val(ins.args[0], fr, st)
            b = self.val(ins.args[1], fr, st)
            fr.regs[ins.dst] = self.fcmp(ins.extra, a, b)
            return
        if op == "select":
            c = self.val(ins.args[0], fr, st)
            a = self.val(ins.args[1], fr, st)
            b = self.val(ins.args[2], fr, st)
            fr.regs[ins.dst] = self.select(c, a, b)
            return
        if op == "insertelement":
            v = self.val(ins.args[0], fr, st)
            x = self.val(ins.args[1], fr, st)
            i = as_int(to_int(self.val(ins.args[2], fr, st)))
            if i is None:
                raise LLUnsupported("symbolic lane index")
            ety = self.resolve(ins.args[0].ty).elem
            lanes = list(v.lanes)
            lanes[i] = self.to_lane(x, ety)
            fr.regs[ins.dst] = VecV(lanes)
            return
        if op == "extractelement":
            v = self.val(ins.args[0], fr, st)
            i = as_int(to_int(self.val(ins.args[1], fr, st)))
            if i is None:
                raise LLUnsupported("symbolic lane index")
            ety = self.resolve(ins.args[0].ty).elem
            fr.regs[ins.dst] = self.from_lane(v.lanes[i], ety)
            return
        if op == "shufflevector":
            a = self.val(ins.args[0], fr, st)
            b = self.val(ins.args[1], fr, st)
            mask = ins.args[2]
            n = len(a.lanes)
            bl = b.lanes if isinstance(b, VecV) else [UNDEF] * n
            lanes = []
            if mask.k == "zero":
                idxs = [0] * self.resolve(mask.ty).n
            elif mask.k == "undef":
                idxs = [None] * self.resolve(mask.ty).n
            else:
                idxs = [None if m.k == "undef" else m.v for m in mask.v]
            for m in idxs:
                if m is None:
                    lanes.append(UNDEF)
                else:
                    lanes.append(a.lanes[m] if m < n else bl[m - n])
            fr.regs[ins.dst] = VecV(lanes)
            return
        if op == "extractvalue":
            v = self.val(ins.args[0], fr, st)
            for k in ins.extra:
                v = v.fields[k]
            fr.regs[ins.dst] = v
            return
        if op == "insertvalue":
            agg = self.val(ins.args[0], fr, st)
            x = self.val(ins.args[1], fr, st)

            def ins_at(a, path):
                fs = list(a.fields)
                if len(path) == 1:
                    fs[path[0]] = x
                else:
                    fs[path[0]] = ins_at(fs[path[0]], path[1:])
                return AggV(fs)

            fr.regs[ins.dst] = ins_at(agg, ins.extra)
            return
        if op == "freeze":
            fr.regs[ins.dst] = self.val(ins.args[0], fr, st)
            return
        if op == "phi":
            raise LLUnsupported("phi not at block start")
        raise LLUnsupported(f"instruction {op}")

    # ---- casts / arithmetic ----------------------------------------------------------------------
    def bitcast(self, v, sty: Ty, dty: Ty):
        sty, dty = self.resolve(sty), self.resolve(dty)
        if sty.k == "ptr" and dty.k == "ptr":
            return v
        if sty.k == "vec" and dty.k == "vec":
            se, de = self.resolve(sty.elem), self.resolve(dty.elem)
            sw = se.bits if se.k == "int" else self.sizeof(se) * 8
            dw = de.bits if de.k == "int" else self.sizeof(de) * 8
            if any(isinstance(l, UndefV) for l in v.lanes):
                if sty.n == dty.n:
                    pass
                else:
                    raise LLUnsupported("bitcast of a partially undefined vector")
            if sty.n == dty.n and sw == dw:
                out = []
                for l in v.lanes:
                    if isinstance(l, UndefV):
                        out.append(UNDEF)
                    elif de.k == "int":
                        out.append(BVV(dw, self.lane_bits(l, dw)))
                    else:
                        if isinstance(l, BVV):
                            out.append(FBits(dw, l.t))
                        else:
                            out.append(l)
                return VecV(out)
            # different lane widths: go through the whole bit string (little endian)
            bits = [self.lane_bits(l, sw) for l in v.lanes]
            whole = bits[0]
            for b in bits[1:]:
                whole = z3.Concat(b, whole)
            out = []
            for k in range(dty.n):
                piece = z3.simplify(z3.Extract((k + 1) * dw - 1, k * dw, whole))
                out.append(BVV(dw, piece) if de.k == "int" else FBits(dw, piece))
            return VecV(out)
        if sty.k == "int" and is_fp(dty) or is_fp(sty) and dty.k == "int":
            raise LLUnsupported("scalar int<->float bitcast")
        if sty.k == "int" and dty.k == "vec":
            de = self.resolve(dty.elem)
            dw = de.bits if de.k == "int" else self.sizeof(de) * 8
            if dw * dty.n != sty.bits or isinstance(v, UndefV):
                raise LLUnsupported("scalar->vector bitcast of mismatching width")
            whole = z3.Int2BV(to_int(v), sty.bits)
            out = []
            for k in range(dty.n):
                piece = z3.simplify(z3.Extract((k + 1) * dw - 1, k * dw, whole))
                out.append(BVV(dw, piece) if de.k == "int" else FBits(dw, piece))
            return VecV(out)
        if sty.k == "vec" and dty.k == "int":
            se = self.resolve(sty.elem)
            sw = se.bits if se.k == "int" else self.sizeof(se) * 8
            bits = [self.lane_bits(l, sw) for l in v.lanes]
            whole = bits[0]
            for b in bits[1:]:
                whole = z3.Concat(b, whole)
            return IntV(dty.bits, z3.BV2Int(whole, is_signed=True))
        return v

    def cast(self, op, v, sty: Ty, dty: Ty, st, ins):
        sty, dty = self.resolve(sty), self.resolve(dty)
        if sty.k == "vec":
            se, de = self.resolve(sty.elem), self.resolve(dty.elem)
            out = []
            for l in v.lanes:
                if isinstance(l, UndefV):
                    out.append(UNDEF)
                    continue
                if op == "sext":
                    out.append(BVV(de.bits, z3.SignExt(de.bits - se.bits, l.t)))
                elif op == "zext":
                    out.append(BVV(de.bits, z3.ZeroExt(de.bits - se.bits, l.t)))
                elif op == "trunc":
                    out.append(BVV(de.bits, z3.Extract(de.bits - 1, 0, l.t)))
                elif op in ("fpext", "fptrunc"):
                    out.append(self.lane_real(l))
                elif op == "sitofp":
                    out.append(RealV(z3.ToReal(z3.BV2Int(l.t, is_signed=True))))
                else:
                    raise LLUnsupported(f"vector {op}")
            return VecV(out)
        if isinstance(v, UndefV):
            return UNDEF
        if op == "sext":
            if sty.bits == 1:
                return IntV(dty.bits, z3.If(to_bool(v), z3.IntVal(-1), z3.IntVal(0)))
            return IntV(dty.bits, to_int(v))
        if op == "zext":
            if sty.bits == 1:
                return IntV(dty.bits, z3.If(to_bool(v), z3.IntVal(1), z3.IntVal(0)))
            t = to_int(v)
            k = as_int(t)
            if k is not None:
                return IntV(dty.bits, z3.IntVal(k % (1 << sty.bits)))
            return IntV(dty.bits, z3.If(t >= 0, t, t + (1 << sty.bits)))
        if op == "trunc":
            t = to_int(v)
            if dty.bits == 1:
                return IntV(1, t % 2 == 1)
            k = as_int(t)
            if k is not None:
                m = 1 << dty.bits
                return IntV(dty.bits, z3.IntVal(((k + (m >> 1)) % m) - (m >> 1)))
            return IntV(dty.bits, wrap_signed(t, dty.bits))
        if op in ("fpext", "fptrunc"):
            return v
        if op == "sitofp":
            return RealV(z3.ToReal(to_int(v)))
        if op == "uitofp":
            return RealV(z3.ToReal(wrap_unsigned(to_int(v), sty.bits)))
        if op in ("fptosi", "fptoui"):
            raise LLUnsupported("float to int conversion")
        if op == "ptrtoint":
            raise LLUnsupported("ptrtoint")
        if op == "inttoptr":
            raise LLUnsupported("inttoptr")
        raise LLUnsupported(op)

    def int_binop(self, op, a, b, ins, st, same=False):
        if isinstance(a, VecV):
            out = []
            for x, y in zip(a.lanes, b.lanes):
                if isinstance(x, UndefV) or isinstance(y, UndefV):
                    out.append(UNDEF)
                    continue
                w = x.w
                xt, yt = self.lane_bits(x, w), self.lane_bits(y, w)
                if op == "xor" and same:
                    out.append(BVV(w, z3.BitVecVal(0, w)))
                    continue
                f = {"add": lambda p, q: p + q, "sub": lambda p, q: p - q, "mul": lambda p, q: p * q, "and": lambda p, q: p & q, "or": lambda p, q: p | q, "xor": lambda p, q: p ^ q,
                     "shl": lambda p, q: p << q, "lshr": lambda p, q: z3.LShR(p, q), "ashr": lambda p, q: p >> q}.get(op)
                if f is None:
                    raise LLUnsupported(f"vector {op}")
                out.append(BVV(w, z3.simplify(f(xt, yt))))
            return VecV(out)
        if isinstance(a, UndefV) or isinstance(b, UndefV):
            return UNDEF
        w = a.w
        if w == 1:
            x, y = to_bool(a), to_bool(b)
            if op == "and":
                return IntV(1, z3.And(x, y))
            if op == "or":
                return IntV(1, z3.Or(x, y))
            if op == "xor":
                return IntV(1, z3.Xor(x, y))
            raise LLUnsupported(f"i1 {op}")
        x, y = to_int(a), to_int(b)
        lo, hi = -(1 << (w - 1)), (1 << (w - 1)) - 1
        where = ins.text
        if op in ("add", "sub", "mul"):
            r = {"add": x + y, "sub": x - y, "mul": x * y}[op]
            if "nsw" in ins.flags:
                self.oblige(st, "signed_overflow", z3.And(r >= lo, r <= hi), where)
                return IntV(w, z3.simplify(r))
            if "nuw" in ins.flags:
                return IntV(w, z3.simplify(r))
            k = as_int(r)
            if k is not None:
                m = 1 << w
                return IntV(w, z3.IntVal(((k - lo) % m) + lo))
            return IntV(w, wrap_signed(r, w))
        if op in ("sdiv", "srem"):
            self.oblige(st, "div_by_zero", y != 0, where)
            self.oblige(st, "signed_overflow", z3.Not(z3.And(x == lo, y == -1)), where)
            # C truncating division from z3's floor-like div/mod (divisor sign split)
            q = z3.If(y > 0, z3.If(x >= 0, x / y, -((-x) / y)), z3.If(x >= 0, -(x / (-y)), (-x) / (-y)))
            if op == "sdiv":
                return IntV(w, z3.simplify(q))
            return IntV(w, z3.simplify(x - q * y))
        if op in ("udiv", "urem"):
            self.oblige(st, "div_by_zero", y != 0, where)
            xu, yu = wrap_unsigned(x, w), wrap_unsigned(y, w)
            return IntV(w, z3.simplify(xu / yu if op == "udiv" else xu % yu))
        if op in ("shl", "lshr", "ashr"):
            self.oblige(st, "shift_amount", z3.And(y >= 0, y < w), where)
            k = as_int(y)
            if k is not None:
                if op == "shl":
                    r = x * (1 << k)
                    if "nsw" in ins.flags:
                        self.oblige(st, "signed_overflow", z3.And(r >= lo, r <= hi), where)
                        return IntV(w, z3.simplify(r))
                    return IntV(w, z3.simplify(wrap_signed(r, w)))
                if op == "ashr":
                    return IntV(w, z3.simplify(x / (1 << k)))
                return IntV(w, z3.simplify(wrap_unsigned(x, w) / (1 << k)))
            bx, by = z3.Int2BV(x, w), z3.Int2BV(y, w)
            r = {"shl": bx << by, "lshr": z3.LShR(bx, by), "ashr": bx >> by}[op]
            return IntV(w, z3.BV2Int(r, is_signed=True))
        if op in ("and", "or", "xor"):
            if op == "xor" and same:
                return IntV(w, z3.IntVal(0))
            kx, ky = as_int(x), as_int(y)
            if kx is not None and ky is not None:
                m = (1 << w) - 1
                r = {"and": (kx & m) & (ky & m), "or": (kx & m) | (ky & m), "xor": (kx & m) ^ (ky & m)}[op]
                if r > hi:
                    r -= 1 << w
                return IntV(w, z3.IntVal(r))
            bx, by = z3.Int2BV(x, w), z3.Int2BV(y, w)
            r = {"and": bx & by, "or": bx | by, "xor": bx ^ by}[op]
            return IntV(w, z3.BV2Int(r, is_signed=True))
        raise LLUnsupported(op)

    def map_fp(self, f, a):
        if isinstance(a, VecV):
            return VecV([UNDEF if isinstance(l, UndefV) else RealV(f(self.lane_real(l).t)) for l in a.lanes])
        if isinstance(a, UndefV):
            return UNDEF
        return RealV(f(a.t))

    def fp_binop(self, op, a, b):
        f = {"fadd": lambda x, y: x + y, "fsub": lambda x, y: x - y, "fmul": lambda x, y: x * y, "fdiv": lambda x, y: x / y}[op]
        if isinstance(a, VecV):
            out = []
            for x, y in zip(a.lanes, b.lanes):
                if isinstance(x, UndefV) or isinstance(y, UndefV):
                    out.append(UNDEF)
                else:
                    out.append(RealV(f(self.lane_real(x).t, self.lane_real(y).t)))
            return VecV(out)
        if isinstance(a, UndefV) or isinstance(b, UndefV):
            return UNDEF
        return RealV(f(a.t, b.t))

    def icmp(self, pred, a, b, ty):
        def sc(x, y, signed=True):
            return {"eq": x == y, "ne": x != y, "slt": x < y, "sle": x <= y, "sgt": x > y, "sge": x >= y}[pred]

        if isinstance(a, VecV):
            out = []
            for x, y in zip(a.lanes, b.lanes):
                if isinstance(x, UndefV) or isinstance(y, UndefV):
                    out.append(UNDEF)
                    continue
                xt, yt = self.lane_bits(x, x.w), self.lane_bits(y, x.w)
                c = {"eq": xt == yt, "ne": xt != yt, "slt": xt < yt, "sle": xt <= yt, "sgt": xt > yt, "sge": xt >= yt,
                     "ult": z3.ULT(xt, yt), "ule": z3.ULE(xt, yt), "ugt": z3.UGT(xt, yt), "uge": z3.UGE(xt, yt)}[pred]
                out.append(BVV(1, z3.If(c, z3.BitVecVal(1, 1), z3.BitVecVal(0, 1))))
            return VecV(out)
        if isinstance(a, PtrV) or isinstance(b, PtrV):
            if pred in ("eq", "ne") and isinstance(a, PtrV) and isinstance(b, PtrV):
                same = (a.alloc is b.alloc) or (a.alloc is not None and b.alloc is not None and a.alloc.id == b.alloc.id)
                c = z3.And(z3.BoolVal(same), a.off == b.off)
                return IntV(1, c if pred == "eq" else z3.Not(c))
            raise LLUnsupported("pointer comparison")
        if isinstance(a, UndefV) or isinstance(b, UndefV):
            raise LLUnsupported("comparison with undef")
        w = a.w
        if w == 1:
            x, y = to_bool(a), to_bool(b)
            if pred == "eq":
                return IntV(1, x == y)
            if pred == "ne":
                return IntV(1, z3.Xor(x, y))
            raise LLUnsupported("ordered i1 comparison")
        x, y = to_int(a), to_int(b)
        if pred[0] == "u":
            x, y = wrap_unsigned(x, w), wrap_unsigned(y, w)
            pred2 = "s" + pred[1:]
            c = {"slt": x < y, "sle": x <= y, "sgt": x > y, "sge": x >= y}[pred2]
            return IntV(1, c)
        return IntV(1, sc(x, y))

    def fcmp(self, pred, a, b):
        def one(x, y):
            # NaNs are outside the reals model: ordered and unordered predicates coincide
            p = pred[1:] if pred[0] in "ou" and pred not in ("ord", "uno", "one", "oeq") else pred
            table = {"eq": x == y, "ne": x != y, "lt": x < y, "le": x <= y, "gt": x > y, "ge": x >= y, "oeq": x == y, "one": x != y, "ord": z3.BoolVal(True), "uno": z3.BoolVal(False), "true": z3.BoolVal(True), "false": z3.BoolVal(False)}
            if p not in table:
                raise LLUnsupported(f"fcmp {pred}")
            return table[p]

        if isinstance(a, VecV):
            out = []
            for x, y in zip(a.lanes, b.lanes):
                if isinstance(x, UndefV) or isinstance(y, UndefV):
                    out.append(UNDEF)
                else:
                    c = one(self.lane_real(x).t, self.lane_real(y).t)
                    out.append(BVV(1, z3.If(c, z3.BitVecVal(1, 1), z3.BitVecVal(0, 1))))
            return VecV(out)
        return IntV(1, one(a.t, b.t))

    def select(self, c, a, b):
        if isinstance(c, VecV):
            out = []
            for cl, x, y in zip(c.lanes, a.lanes, b.lanes):
                out.append(self.ite_lane(cl.t == z3.BitVecVal(1, 1), x, y))
            return VecV(out)
        cb = to_bool(c)
        return self.ite_val(cb, a, b)

    def ite_lane(self, c, x, y):
        if isinstance(x, UndefV) and isinstance(y, UndefV):
            return UNDEF
        if isinstance(x, BVV) or isinstance(y, BVV):
            if isinstance(x, UndefV) or isinstance(y, UndefV):
                raise LLUnsupported("select with undef lane")
            return BVV(x.w, z3.If(c, x.t, y.t))
        if isinstance(x, UndefV) or isinstance(y, UndefV):
            raise LLUnsupported("select with undef lane")
        return RealV(z3.If(c, self.lane_real(x).t, self.lane_real(y).t))

    def ite_val(self, c, a, b):
        c = z3.simplify(c)
        if z3.is_true(c):
            return a
        if z3.is_false(c):
            return b
        if isinstance(a, RealV) and isinstance(b, RealV):
            return RealV(z3.If(c, a.t, b.t))
        if isinstance(a, IntV) and isinstance(b, IntV):
            if a.w == 1:
                return IntV(1, z3.If(c, to_bool(a), to_bool(b)))
            return IntV(a.w, z3.If(c, to_int(a), to_int(b)))
        if isinstance(a, VecV) and isinstance(b, VecV):
            return VecV([self.ite_lane(c, x, y) for x, y in zip(a.lanes, b.lanes)])
        if isinstance(a, PtrV) and isinstance(b, PtrV) and a.alloc is b.alloc:
            return PtrV(a.alloc, z3.If(c, a.off, b.off))
        raise LLUnsupported("select of these operand kinds")

    # ---- calls ---------------------------------------------------------------------------------
    def call(self, ins: Instr, fr: Frame, st: State):
        name = ins.extra
        if name in self.mod.functions:
            fn = self.mod.functions[name]
            args = [self.val(a, fr, st) for a in ins.args]
            if self.is_pure_scalar(fn):
                rv = self.summarise(fn, args, st)
                if ins.dst is not None:
                    fr.regs[ins.dst] = rv
                return "done"
            self.push_frame(st, fn, args, ins.dst)
            return "entered"
        from .intrinsics import call_external

        args = [self.val(a, fr, st) for a in ins.args]
        rv = call_external(self, name, args, ins, fr, st)
        if ins.dst is not None:
            fr.regs[ins.dst] = rv
        return "done"

    def is_pure_scalar(self, fn: Function):
        for p in fn.params:
            t = self.resolve(p.ty)
            if t.k not in ("int", "float", "double", "half"):
                return False
        n = 0
        for blk in fn.blocks.values():
            for i in blk:
                n += 1
                if i.op in ("load", "store", "alloca"):
                    return False
                if i.op == "call":
                    callee = i.extra
                    if callee in self.mod.functions:
                        if callee == fn.name or not self.is_pure_scalar(self.mod.functions[callee]):
                            return False
        return n < 200

    def summarise(self, fn: Function, args, st: State):
        """execute a small pure scalar function on all its paths and merge the results"""
        sub = Executor(self.mod, self.solver, max_paths=64, max_steps=5000)
        s0 = State()
        s0.pc = list(st.pc)
        base_len = len(st.pc)
        outs = sub.run(fn.name, args, s0)
        self.solver_calls += sub.solver_calls
        self.intrinsics_used |= sub.intrinsics_used
        if not outs:
            raise LLUnsupported(f"no feasible path through {fn.name}")
        rv = outs[-1].retval
        for o in reversed(outs[:-1]):
            cond = z3.And(*o.pc[base_len:]) if len(o.pc) > base_len else z3.BoolVal(True)
            rv = self.ite_val(cond, o.retval, rv)
        for o in outs:
            for ob in o.obls:
                st.obls.append(ob)
        return rv
