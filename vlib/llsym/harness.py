"""C02/C08 harness: real compiler -> C -> clang -> LLVM IR -> llsym, compared with
loopsym on the same LoopIR, for all inputs within the stated bounds."""
from __future__ import annotations

import hashlib
import itertools
import os
import re
import shutil
import subprocess
import time
from dataclasses import dataclass, field
from fractions import Fraction
from typing import Any, Dict, List, Optional

import z3

from exo.API import Procedure, compile_procs_to_strings
from exo.core.LoopIR import LoopIR, T

from .. import loopsym as L
from ..common import WORK
from ..loopsym import Bounds, Inputs, Ref, Store, SymExec, full_ref
from .exec import Allocation, Executor, IntV, LLLimit, LLUnsupported, PtrV, RealV, State
from .parse import LLParseError, parse_module

CLANG = shutil.which("clang-14") or "clang-14"
OPT = shutil.which("opt-14") or "opt-14"
WERROR = ["-Werror=incompatible-pointer-types", "-Werror=int-conversion", "-Werror=implicit-function-declaration", "-Werror=incompatible-pointer-types-discards-qualifiers", "-Werror=return-type"]


class CompileFailure(Exception):
    def __init__(self, stage, msg):
        super().__init__(f"{stage}: {msg}")
        self.stage = stage
        self.msg = msg


CTYPE = {"F32": "float", "F64": "double", "INT8": "int8_t", "UINT8": "uint8_t", "UINT16": "uint16_t", "INT32": "int32_t", "F16": "_Float16", "Num": "float"}
ELEM = {"float": ("f", 4), "double": ("f", 8), "int8_t": ("i", 1), "uint8_t": ("i", 1), "uint16_t": ("i", 2), "int32_t": ("i", 4), "_Float16": ("f", 2)}


def basetype(t):
    if t.is_tensor_or_window():
        t = t.basetype() if hasattr(t, "basetype") else t.type
    return t


def ctype_of(t):
    bt = t.type if isinstance(t, T.Tensor) else t
    return CTYPE[type(bt).__name__]


@dataclass
class ArgInfo:
    pos: int
    name: str
    kind: str  # 'size' 'index' 'bool' 'dense' 'window' 'scalar'
    ctype: str = ""
    rank: int = 0
    struct: str = ""


def parse_prototype(header: str, name: str):
    m = re.search(rf"^void {re.escape(name)}\(\s*(.*?)\s*\);", header, flags=re.M | re.S)
    if not m:
        raise CompileFailure("header", f"no prototype for {name}")
    return [p.strip() for p in m.group(1).split(",")]


def context_fields(header: str):
    """[(config name, field, ctype)] in struct order, or [] when ctxt is void*"""
    m = re.search(r"typedef struct (\w+) \{(.*?)\}\s*\1;", header, flags=re.S)
    if not m:
        return None, []
    out = []
    for sm in re.finditer(r"struct (\w+) \{(.*?)\}\s*\1;", m.group(2), flags=re.S):
        for fm in re.finditer(r"^\s*([\w ]+?)\s+(\w+);", sm.group(2), flags=re.M):
            out.append((sm.group(1), fm.group(2), fm.group(1).strip()))
    return m.group(1), out


def build_driver(p_ir, header: str):
    """returns (driver C text, list of driver params [(kind, info)])"""
    protos = parse_prototype(header, str(p_ir.name))
    ctx_ty, cfields = context_fields(header)
    params = []  # (cname, ctype, role)
    call = []
    pre, post = [], []
    if ctx_ty is None:
        call.append("(void*)0")
    else:
        pre.append(f"  {ctx_ty} ctxt_;")
        for cfg, fld, cty in cfields:
            nm = f"cfg_{cfg}_{fld}"
            params.append((nm, cty + "*", ("cfg", cfg, fld, cty)))
            pre.append(f"  ctxt_.{cfg}.{fld} = *{nm};")
            post.append(f"  *{nm} = ctxt_.{cfg}.{fld};")
        call.append("&ctxt_")
    assert len(protos) == len(p_ir.args) + 1, (protos, [str(a.name) for a in p_ir.args])
    infos = []
    for pos, (a, proto) in enumerate(zip(p_ir.args, protos[1:])):
        t = a.type
        nm = f"a{pos}"
        if isinstance(t, (T.Size, T.Index, T.Int, T.Stride)):
            params.append((nm, "int_fast32_t", ("ctrl", pos)))
            call.append(nm)
            infos.append(ArgInfo(pos, str(a.name), "size" if isinstance(t, T.Size) else "index"))
        elif isinstance(t, T.Bool):
            params.append((nm, "bool", ("ctrl", pos)))
            call.append(nm)
            infos.append(ArgInfo(pos, str(a.name), "bool"))
        elif t.is_tensor_or_window() and t.is_win():
            sm = re.match(r"struct (\w+)", proto)
            if not sm:
                raise CompileFailure("header", f"window parameter {a.name} has prototype {proto!r}")
            cty = ctype_of(t)
            rank = len(t.shape())
            params.append((nm + "_data", cty + "*", ("data", pos)))
            for k in range(rank):
                params.append((f"{nm}_s{k}", "int_fast32_t", ("stride", pos, k)))
            strides = ", ".join(f"{nm}_s{k}" for k in range(rank))
            call.append(f"(struct {sm.group(1)}){{ {nm}_data, {{ {strides} }} }}")
            infos.append(ArgInfo(pos, str(a.name), "window", cty, rank, sm.group(1)))
        elif t.is_tensor_or_window():
            cty = ctype_of(t)
            params.append((nm, cty + "*", ("data", pos)))
            call.append(nm)
            infos.append(ArgInfo(pos, str(a.name), "dense", cty, len(t.shape())))
        else:
            cty = ctype_of(t)
            params.append((nm, cty + "*", ("data", pos)))
            call.append(nm)
            infos.append(ArgInfo(pos, str(a.name), "scalar", cty, 0))
    sig = ", ".join(f"{cty} {nm}" for nm, cty, _r in params) or "void"
    body = "\n".join(pre) + f"\n  {p_ir.name}({', '.join(call)});\n" + "\n".join(post)
    text = f"\nvoid vdrv__({sig}) {{\n{body}\n}}\n"
    return text, params, infos, cfields


def lower_to_ir(c_text: str, h_text: str, tag: str, extra_flags=()):
    d = WORK / "llsym" / tag
    d.mkdir(parents=True, exist_ok=True)
    (d / "t.h").write_text(h_text)
    (d / "t.c").write_text(c_text)
    r = subprocess.run([CLANG, "-O0", "-Xclang", "-disable-O0-optnone", "-S", "-emit-llvm", "-I", str(d), "-Wno-unused", *WERROR, *extra_flags, str(d / "t.c"), "-o", str(d / "a.ll")], capture_output=True, text=True)
    if r.returncode != 0:
        raise CompileFailure("clang", r.stderr[-1500:])
    r2 = subprocess.run([OPT, "-enable-new-pm=0", "-always-inline", "-mem2reg", "-S", str(d / "a.ll"), "-o", str(d / "b.ll")], capture_output=True, text=True)
    if r2.returncode != 0:
        raise CompileFailure("opt", r2.stderr[-800:])
    text = (d / "b.ll").read_text()
    return text, d, r.stderr


def uses_isa(c_text):
    flags = []
    if "_mm256" in c_text or "__m256" in c_text:
        flags += ["-mavx2", "-mfma"]
    if "_mm512" in c_text or "__m512" in c_text:
        flags += ["-mavx512f", "-mavx512bw", "-mavx512dq", "-mavx512vl", "-mavx2", "-mfma"]
    return flags


# ---------------------------------------------------------------------------


@dataclass
class Result:
    name: str
    status: str = "ok"  # ok | compile_rejected | compile_failure | inconclusive | skipped
    why: str = ""
    valuations: int = 0
    paths: int = 0
    obligations: int = 0
    queries: int = 0
    solver_s: float = 0.0
    c02: list = field(default_factory=list)  # violations (dict)
    c08: list = field(default_factory=list)
    unknown: int = 0
    intrinsics: list = field(default_factory=list)
    ir_lines: int = 0
    c_text: str = ""
    notes: list = field(default_factory=list)


def size_valuations(p_ir, inp: Inputs, solver, limit):
    """AllSAT over size-typed arguments and size/index-typed configuration reads"""
    svars = [inp.ctrl[pos] for pos, a in enumerate(p_ir.args) if isinstance(a.type, T.Size)]
    if not svars:
        return [[]]
    out = []
    solver.push()
    while len(out) < limit:
        r = solver.check()
        if r != z3.sat:
            break
        m = solver.model()
        val = [(v, m.eval(v, model_completion=True)) for v in svars]
        out.append(val)
        solver.add(z3.Or(*[v != x for v, x in val]))
    else:
        solver.pop()
        return None
    solver.pop()
    return out


def check_proc(p: Procedure, bounds: Bounds, tag: str, max_valuations=64, query_timeout_ms=30000, want=("C02", "C08")) -> Result:
    p_ir = p._loopir_proc
    res = Result(str(p_ir.name))
    # ---- real compiler ---------------------------------------------------------------
    try:
        c_text, h_text = compile_procs_to_strings([p], "t.h")
    except BaseException as ex:  # noqa
        if isinstance(ex, (KeyboardInterrupt, SystemExit)):
            raise
        res.status = "compile_rejected"
        res.why = f"{type(ex).__name__}: {str(ex)[:200]}"
        return res
    try:
        drv, params, infos, cfields = build_driver(p_ir, h_text)
    except (CompileFailure, AssertionError, KeyError) as ex:
        res.status = "inconclusive"
        res.why = f"driver: {ex}"
        return res
    res.c_text = c_text
    if any(i.ctype in ("int8_t", "uint8_t", "uint16_t", "int32_t") for i in infos):
        res.status = "skipped"
        res.why = "integer-typed data buffers are outside the reals model"
        return res
    try:
        ir_text, workdir, warn = lower_to_ir(c_text + drv, h_text, tag, uses_isa(c_text))
    except CompileFailure as ex:
        res.status = "compile_failure"
        res.why = str(ex)
        return res
    res.ir_lines = ir_text.count("\n")
    try:
        mod = parse_module(ir_text)
    except LLParseError as ex:
        res.status = "inconclusive"
        res.why = f"IR parse: {ex}"
        return res
    # ---- symbolic inputs ---------------------------------------------------------------
    inp = Inputs(p_ir, bounds, tag="")
    solver, pre = L.make_solver(inp, p_ir, timeout_ms=query_timeout_ms)
    vals = size_valuations(p_ir, inp, solver, max_valuations)
    if vals is None:
        res.status = "skipped"
        res.why = f"more than {max_valuations} size valuations"
        return res
    if not vals:
        res.status = "skipped"
        res.why = "assertions unsatisfiable within bounds"
        return res
    res.valuations = len(vals)
    t_solver = 0.0
    for sub in vals:
        try:
            one_valuation(p_ir, mod, inp, solver, pre, sub, params, infos, cfields, bounds, res, query_timeout_ms)
        except (LLUnsupported, L.Unsupported) as ex:
            res.status = "inconclusive"
            res.why = f"{type(ex).__name__}: {ex}"
            return res
        except (LLLimit, L.TooBig) as ex:
            res.status = "skipped"
            res.why = f"{type(ex).__name__}: {ex}"
            return res
        if res.c02 or res.c08:
            break
    shutil.rmtree(workdir, ignore_errors=True)
    return res


def _subst(t, sub):
    if not sub or not z3.is_expr(t):
        return t
    return z3.simplify(z3.substitute(t, *sub))


def one_valuation(p_ir, mod, inp: Inputs, solver, pre, sub, params, infos, cfields, bounds, res: Result, timeout_ms):
    """one concrete assignment of the size arguments; everything else symbolic"""
    assume = [_subst(a, sub) for a in inp.assumptions] + [_subst(a, sub) for a in pre]
    assume = [a for a in assume if not z3.is_true(a)]
    st = State()
    # ---- build the shared initial memory ---------------------------------------------------
    ctrl_vals = {}
    lstores: Dict[int, Store] = {}
    callocs: Dict[int, Allocation] = {}
    init_arr: Dict[int, Any] = {}
    info_by_pos = {i.pos: i for i in infos}
    ex = None
    argvals_l = []
    extra_assume = []
    for pos, a in enumerate(p_ir.args):
        info = info_by_pos[pos]
        if info.kind in ("size", "index", "bool"):
            v = _subst(inp.ctrl[pos], sub)
            ctrl_vals[pos] = v
            argvals_l.append(v)
            continue
        st0 = inp.stores[pos]
        shape = [_subst(e, sub) for e in st0.shape]
        dims = [L._num(s) if z3.is_int_value(s) else None for s in shape]
        if any(d is None for d in dims):
            raise LLUnsupported(f"extent of {a.name} is not determined by the size arguments")
        elem = ELEM[info.ctype]
        rng = z3.RealSort() if elem[0] == "f" else z3.IntSort()
        arr = z3.Array(f"C_{pos}_{a.name}", z3.IntSort(), rng)
        if info.kind == "window":
            strides = [_subst(s, sub) for s in st0.strides]
            off = z3.Int(f"off_{pos}")
            cap = z3.Int(f"cap_{pos}")
            extent = off
            for d, s_ in zip(dims, strides):
                extent = extent + (d - 1) * s_
            extra_assume += [off >= 0, extent < cap, cap <= 4096]
            flat = (off, strides)
            size_bytes = cap * elem[1]
        else:
            strides = []
            acc = 1
            for d in reversed(dims):
                strides.insert(0, acc)
                acc *= d
            flat = (z3.IntVal(0), [z3.IntVal(s) for s in strides])
            size_bytes = max(acc, 1) * elem[1]
        ls = Store(st0.name, shape, arr, True, None if info.kind != "window" else strides, "arg", pos)
        ls.flat = flat
        if info.kind == "scalar":
            ls.flat = (z3.IntVal(0), [])
        lstores[pos] = ls
        init_arr[pos] = arr
        argvals_l.append(full_ref(ls))
    # ---- loopsym reference run (same z3 arrays) ------------------------------------------------
    lex = SymExec(inp, solver)
    lex.mul_mode = "exact"
    solver.push()
    solver.add(*[c == v for c, v in sub])
    try:
        lex.run(p_ir, argvals_l, "L_")
    finally:
        solver.pop()
    assume = [a for a in ([_subst(a, sub) for a in inp.assumptions] + [_subst(a, sub) for a in pre] + extra_assume) if not z3.is_true(a)]
    l_cfg = {k: _subst(v, sub) for k, v in lex.cfg.items()}
    # safety obligations of the LoopIR itself on this valuation: inputs violating them are not judged (C03's business)
    l_safe = [_subst(o.formula, sub) for o in lex.obls if o.kind != "unwind"]
    # ---- llsym run ---------------------------------------------------------------------------------
    ex = Executor(mod, solver)
    drv_args = []
    cfg_allocs = {}
    for nm, cty, role in params:
        if role[0] == "ctrl":
            pos = role[1]
            v = ctrl_vals[pos]
            if z3.is_bool(v):
                drv_args.append(IntV(1, v))
            else:
                drv_args.append(IntV(64, v))
        elif role[0] == "data":
            pos = role[1]
            info = info_by_pos[pos]
            ls = lstores[pos]
            elem = ELEM[info.ctype]
            if info.kind == "window":
                cap = z3.Int(f"cap_{pos}")
                size = cap * elem[1]
            elif info.kind == "scalar":
                size = elem[1]
            else:
                n = 1
                for s_ in ls.shape:
                    n *= L._num(s_)
                size = max(n, 1) * elem[1]
            al = ex.new_array(st, f"arg{pos}_{info.name}", size, elem, content=init_arr[pos], role=("arg", pos))
            callocs[pos] = al
            off = ls.flat[0] if info.kind == "window" else z3.IntVal(0)
            drv_args.append(PtrV(al, z3.simplify(off * elem[1])))
        elif role[0] == "stride":
            _, pos, k = role
            drv_args.append(IntV(64, lstores[pos].flat[1][k]))
        elif role[0] == "cfg":
            _, cfg, fld, cty = role
            key = (cfg, fld)
            var = inp.cfg0.get(key)
            if cty in ("float", "double", "_Float16"):
                elem = ("f", {"float": 4, "double": 8, "_Float16": 2}[cty])
                if var is None:
                    var = z3.Real(f"cfg_{cfg}_{fld}")
                content = z3.Store(z3.K(z3.IntSort(), z3.RealVal(0)), 0, var)
            else:
                elem = ("i", 1 if cty == "bool" else 8)
                if var is None:
                    var = z3.Bool(f"cfg_{cfg}_{fld}") if cty == "bool" else z3.Int(f"cfg_{cfg}_{fld}")
                iv = z3.If(var, z3.IntVal(1), z3.IntVal(0)) if z3.is_bool(var) else var
                content = z3.Store(z3.K(z3.IntSort(), z3.IntVal(0)), 0, iv)
            al = ex.new_array(st, f"cfg_{cfg}_{fld}", elem[1], elem, content=content, role=("cfg", cfg, fld))
            cfg_allocs[key] = (al, var, cty)
            drv_args.append(PtrV(al, z3.IntVal(0)))
    solver.push()
    solver.add(*assume)
    solver.add(*[c == v for c, v in sub])
    try:
        outs = ex.run("vdrv__", drv_args, st)
        res.paths += len(outs)
        res.intrinsics = sorted(set(res.intrinsics) | ex.intrinsics_used)
        # ---- decide --------------------------------------------------------------------------------
        for o in outs:
            pc = o.pc
            # C08 obligations
            for ob in o.obls:
                res.obligations += 1
                solver.push()
                solver.add(*ob.pc)
                solver.add(*l_safe)
                solver.add(z3.Not(ob.formula))
                t0 = time.time()
                r = solver.check()
                res.solver_s += time.time() - t0
                res.queries += 1
                if r == z3.sat:
                    m = solver.model()
                    res.c08.append({"kind": ob.kind, "where": ob.where, "sizes": {str(c): str(v) for c, v in sub}, "model": model_inputs(m, p_ir, inp, lstores, ctrl_vals, sub, cfg_allocs, init_arr)})
                elif r == z3.unknown:
                    res.unknown += 1
                solver.pop()
                if res.c08:
                    return
            # C02: final memory equals the reference, address by address
            for pos, al in callocs.items():
                fin = o.mem[al.id]
                ls = lstores[pos]
                z = z3.Int("z_addr")
                n_el = fin.size / fin.elem[1] if z3.is_expr(fin.size) else fin.size // fin.elem[1]
                cval = z3.Select(fin.content, z)
                lval = z3.Select(ls.val, z) if not (ls.rank == 0 and ls.flat is None) else ls.val
                if z3.eq(z3.simplify(cval), z3.simplify(lval)):
                    continue
                solver.push()
                solver.add(*pc)
                solver.add(*l_safe)
                if not isinstance(ls.dfn, bool):
                    # cells the reference leaves undefined (copied from uninitialised staging buffers) are not judged
                    solver.add(z3.Select(ls.dfn, z))
                solver.add(z >= 0, z < n_el, cval != lval)
                t0 = time.time()
                r = solver.check()
                res.solver_s += time.time() - t0
                res.queries += 1
                if r == z3.sat:
                    m = solver.model()
                    res.c02.append({"what": f"argument {p_ir.args[pos].name}", "address": str(m.eval(z)), "c_value": str(m.eval(cval, model_completion=True)), "ref_value": str(m.eval(lval, model_completion=True)), "sizes": {str(c): str(v) for c, v in sub},
                                    "model": model_inputs(m, p_ir, inp, lstores, ctrl_vals, sub, cfg_allocs, init_arr)})
                elif r == z3.unknown:
                    res.unknown += 1
                solver.pop()
                if res.c02:
                    return
            # configuration fields
            for key, (al, var, cty) in cfg_allocs.items():
                fin = o.mem[al.id]
                cfin = z3.Select(fin.content, 0)
                lfin = l_cfg.get(key, var)
                if z3.is_bool(lfin):
                    lfin = z3.If(lfin, z3.IntVal(1), z3.IntVal(0))
                if z3.eq(z3.simplify(cfin), z3.simplify(lfin)):
                    continue
                solver.push()
                solver.add(*pc)
                solver.add(*l_safe)
                solver.add(cfin != lfin)
                t0 = time.time()
                r = solver.check()
                res.solver_s += time.time() - t0
                res.queries += 1
                if r == z3.sat:
                    m = solver.model()
                    res.c02.append({"what": f"config {key[0]}.{key[1]}", "c_value": str(m.eval(cfin, model_completion=True)), "ref_value": str(m.eval(lfin, model_completion=True)), "sizes": {str(c): str(v) for c, v in sub},
                                    "model": model_inputs(m, p_ir, inp, lstores, ctrl_vals, sub, cfg_allocs, init_arr)})
                elif r == z3.unknown:
                    res.unknown += 1
                solver.pop()
                if res.c02:
                    return
    finally:
        solver.pop()


def model_inputs(m, p_ir, inp, lstores, ctrl_vals, sub, cfg_allocs, init_arr=None, cells_cap=64):
    """concrete inputs for native replay"""
    out = {"args": [], "cfg": {}}
    for pos, a in enumerate(p_ir.args):
        if pos in ctrl_vals:
            v = m.eval(ctrl_vals[pos], model_completion=True)
            out["args"].append({"kind": "ctrl", "value": (z3.is_true(v) if z3.is_bool(v) else v.as_long())})
        else:
            ls = lstores[pos]
            dims = [L._num(s) for s in ls.shape]
            off = L._num(m.eval(ls.flat[0], model_completion=True))
            strides = [L._num(m.eval(s_, model_completion=True)) for s_ in ls.flat[1]]
            cap = off + 1
            for d, s_ in zip(dims, strides):
                cap += (d - 1) * s_
            capv = z3.Int(f"cap_{pos}")
            try:
                cap = max(cap, L._num(m.eval(capv, model_completion=True)))
            except Exception:
                pass
            cap = min(cap, 4096)
            data = []
            for zaddr in range(cap):
                v = m.eval(z3.Select(init_arr[pos], zaddr), model_completion=True)
                try:
                    data.append(str(L._num(v)))
                except Exception:
                    data.append("0")
            out["args"].append({"kind": "buf", "dims": dims, "offset": off, "strides": strides, "cap": cap, "data": data})
    for key, (al, var, cty) in cfg_allocs.items():
        v = m.eval(var, model_completion=True)
        out["cfg"][f"{key[0]}.{key[1]}"] = str(z3.is_true(v)) if z3.is_bool(v) else str(L._num(v))
    return out
