"""Hand-written models of external functions and LLVM/x86 intrinsics (trusted
base of llsym; every one used is listed in the evidence)."""
from __future__ import annotations

import z3

from ..loopsym import uf
from .exec import BVV, FBits, IntV, LLUnsupported, PtrV, RealV, UNDEF, UndefV, VecV, as_int, to_bool, to_int

LIBM_UF = {"sin": "sin", "sinf": "sin", "cos": "cos", "cosf": "cos", "exp": "exp", "expf": "expf", "sqrt": "sqrt", "sqrtf": "sqrt", "log": "log", "logf": "log", "tanh": "tanh", "tanhf": "tanh"}


def sign_bit(ex, lane, w):
    """z3 Bool: most significant bit of the lane's bit pattern is set"""
    if isinstance(lane, UndefV):
        raise LLUnsupported("mask lane is undef")
    bits = ex.lane_bits(lane, w)
    return z3.simplify(z3.Extract(w - 1, w - 1, bits) == z3.BitVecVal(1, 1))


def call_external(ex, name, args, ins, fr, st):
    ex.intrinsics_used.add(name)
    where = ins.text
    if name == "malloc":
        n = to_int(args[0])
        a = ex.new_array(st, f"malloc@{fr.fn.name}#{next(ex.fresh)}", z3.simplify(n), None, malloced=True)
        ex.oblige(st, "malloc_size", n >= 0, where)
        return PtrV(a, z3.IntVal(0))
    if name == "free":
        p = args[0]
        if not isinstance(p, PtrV) or p.alloc is None:
            ex.oblige(st, "free_invalid", z3.BoolVal(False), where)
            return None
        a = st.mem[p.alloc.id]
        if not a.malloced:
            ex.oblige(st, "free_non_heap", z3.BoolVal(False), where + f" ({a.name})")
            return None
        if a.freed:
            ex.oblige(st, "double_free", z3.BoolVal(False), where + f" ({a.name})")
            return None
        ex.oblige(st, "free_interior", p.off == 0, where)
        a.freed = True
        a.live = False
        return None
    if name == "llvm.assume":
        ex.oblige(st, "assume_violated", to_bool(args[0]), where)
        return None
    if name.startswith("llvm.lifetime.") or name.startswith("llvm.dbg.") or name in ("llvm.prefetch", "llvm.prefetch.p0i8", "llvm.stackrestore", "llvm.donothing") or name.startswith("llvm.experimental.noalias") or name.startswith("llvm.prefetch"):
        return None
    if name == "llvm.stacksave":
        return PtrV(None, z3.IntVal(0))
    if name.startswith("llvm.fma.") or name.startswith("llvm.fmuladd."):
        a, b, c = args
        if isinstance(a, VecV):
            out = []
            for x, y, z in zip(a.lanes, b.lanes, c.lanes):
                if any(isinstance(v, UndefV) for v in (x, y, z)):
                    out.append(UNDEF)
                else:
                    out.append(RealV(ex.lane_real(x).t * ex.lane_real(y).t + ex.lane_real(z).t))
            return VecV(out)
        return RealV(a.t * b.t + c.t)
    if name in ("fmaxf", "fmax", "llvm.maxnum.f32", "llvm.maxnum.f64"):
        a, b = args
        return RealV(z3.If(a.t >= b.t, a.t, b.t))
    if name in ("fminf", "fmin", "llvm.minnum.f32", "llvm.minnum.f64"):
        a, b = args
        return RealV(z3.If(a.t <= b.t, a.t, b.t))
    if name in ("fabsf", "fabs", "llvm.fabs.f32", "llvm.fabs.f64"):
        (a,) = args
        return RealV(z3.If(a.t >= 0, a.t, -a.t))
    if name in LIBM_UF:
        (a,) = args
        t = uf(LIBM_UF[name])(a.t)
        return RealV(t)
    if name in ("llvm.sqrt.f32", "llvm.sqrt.f64"):
        (a,) = args
        return RealV(uf("sqrt")(a.t))
    # ---- AVX / AVX2 ----------------------------------------------------------------------
    if name in ("llvm.x86.avx.maskload.ps.256", "llvm.x86.avx.maskload.pd.256", "llvm.x86.avx2.maskload.d.256"):
        p, mask = args
        n = len(mask.lanes)
        w = 256 // n
        esz = w // 8
        a = st.mem[p.alloc.id]
        elem = ("f", esz)
        ex.ensure_typed(a, elem)
        if a.elem != elem:
            raise LLUnsupported(f"maskload from {a.elem} buffer")
        idx0 = ex.elem_index(st, a, p.off, esz, where)
        size = a.size if z3.is_expr(a.size) else z3.IntVal(a.size)
        out = []
        for k in range(n):
            on = sign_bit(ex, mask.lanes[k], w)
            off_k = p.off + k * esz
            ex.oblige(st, "oob", z3.Implies(on, z3.And(off_k >= 0, off_k + esz <= size)), where + f" lane {k}")
            if not a.live:
                ex.oblige(st, "use_after_free", z3.Not(on), where)
            out.append(RealV(z3.If(on, z3.Select(a.content, z3.simplify(idx0 + k)), z3.RealVal(0))))
        return VecV(out)
    if name in ("llvm.x86.avx.maskstore.ps.256", "llvm.x86.avx.maskstore.pd.256"):
        p, mask, v = args
        n = len(mask.lanes)
        w = 256 // n
        esz = w // 8
        a = st.mem[p.alloc.id]
        elem = ("f", esz)
        ex.ensure_typed(a, elem)
        if a.elem != elem:
            raise LLUnsupported(f"maskstore to {a.elem} buffer")
        idx0 = ex.elem_index(st, a, p.off, esz, where)
        size = a.size if z3.is_expr(a.size) else z3.IntVal(a.size)
        for k in range(n):
            on = sign_bit(ex, mask.lanes[k], w)
            off_k = p.off + k * esz
            ex.oblige(st, "oob", z3.Implies(on, z3.And(off_k >= 0, off_k + esz <= size)), where + f" lane {k}")
            if not a.live:
                ex.oblige(st, "use_after_free", z3.Not(on), where)
            if z3.is_false(on):
                continue
            lane = v.lanes[k]
            if isinstance(lane, UndefV):
                val = z3.FreshConst(z3.RealSort(), "undef")
            else:
                val = ex.lane_real(lane).t
            idx = z3.simplify(idx0 + k)
            a.content = z3.Store(a.content, idx, z3.If(on, val, z3.Select(a.content, idx)))
        return None
    if name == "llvm.x86.avx.hadd.ps.256":
        a, b = [[ex.lane_real(l).t for l in v.lanes] for v in args]
        r = [a[0] + a[1], a[2] + a[3], b[0] + b[1], b[2] + b[3], a[4] + a[5], a[6] + a[7], b[4] + b[5], b[6] + b[7]]
        return VecV([RealV(x) for x in r])
    if name == "llvm.x86.avx.hadd.pd.256":
        a, b = [[ex.lane_real(l).t for l in v.lanes] for v in args]
        r = [a[0] + a[1], b[0] + b[1], a[2] + a[3], b[2] + b[3]]
        return VecV([RealV(x) for x in r])
    if name in ("llvm.x86.avx.blendv.ps.256", "llvm.x86.avx.blendv.pd.256"):
        a, b, m = args
        n = len(a.lanes)
        w = 256 // n
        out = []
        for k in range(n):
            on = sign_bit(ex, m.lanes[k], w)
            out.append(ex.ite_lane(on, b.lanes[k], a.lanes[k]))
        return VecV(out)
    if name in ("llvm.x86.avx.max.ps.256", "llvm.x86.avx.max.pd.256", "llvm.x86.avx512.max.ps.512"):
        a, b = args[0], args[1]
        # MAXPS returns the second operand unless a > b (matters only for NaN/-0, outside the reals model)
        return VecV([RealV(z3.If(ex.lane_real(x).t > ex.lane_real(y).t, ex.lane_real(x).t, ex.lane_real(y).t)) for x, y in zip(a.lanes, b.lanes)])
    if name in ("llvm.x86.avx.min.ps.256", "llvm.x86.avx.min.pd.256"):
        a, b = args[0], args[1]
        return VecV([RealV(z3.If(ex.lane_real(x).t < ex.lane_real(y).t, ex.lane_real(x).t, ex.lane_real(y).t)) for x, y in zip(a.lanes, b.lanes)])
    if name.startswith("llvm.uadd.sat.") or name.startswith("llvm.sadd.sat."):
        a, b = args
        unsigned = name.startswith("llvm.uadd")
        out = []
        for x, y in zip(a.lanes, b.lanes):
            w = x.w
            xt, yt = ex.lane_bits(x, w), ex.lane_bits(y, w)
            if unsigned:
                s = z3.ZeroExt(1, xt) + z3.ZeroExt(1, yt)
                ov = z3.Extract(w, w, s) == z3.BitVecVal(1, 1)
                out.append(BVV(w, z3.If(ov, z3.BitVecVal((1 << w) - 1, w), z3.Extract(w - 1, 0, s))))
            else:
                raise LLUnsupported(name)
        return VecV(out)
    # ---- masked generic loads/stores (AVX-512 lowering) ----------------------------------------
    if name.startswith("llvm.masked.load."):
        p, _align, mask, passthru = args
        n = len(mask.lanes)
        a = st.mem[p.alloc.id]
        ety = ex.resolve(ins.ty).elem
        elem = ex.scalar_elem(ety)
        esz = elem[1]
        ex.ensure_typed(a, elem)
        if a.elem != elem:
            raise LLUnsupported("masked.load element type")
        idx0 = ex.elem_index(st, a, p.off, esz, where)
        size = a.size if z3.is_expr(a.size) else z3.IntVal(a.size)
        out = []
        for k in range(n):
            on = z3.simplify(mask.lanes[k].t == z3.BitVecVal(1, 1))
            off_k = p.off + k * esz
            ex.oblige(st, "oob", z3.Implies(on, z3.And(off_k >= 0, off_k + esz <= size)), where + f" lane {k}")
            pt = passthru.lanes[k]
            ptv = z3.RealVal(0) if isinstance(pt, UndefV) else ex.lane_real(pt).t
            out.append(RealV(z3.If(on, z3.Select(a.content, z3.simplify(idx0 + k)), ptv)))
        return VecV(out)
    if name.startswith("llvm.masked.store."):
        v, p, _align, mask = args
        n = len(mask.lanes)
        a = st.mem[p.alloc.id]
        ety = ex.resolve(ins.args[0].ty).elem
        elem = ex.scalar_elem(ety)
        esz = elem[1]
        ex.ensure_typed(a, elem)
        if a.elem != elem:
            raise LLUnsupported("masked.store element type")
        idx0 = ex.elem_index(st, a, p.off, esz, where)
        size = a.size if z3.is_expr(a.size) else z3.IntVal(a.size)
        for k in range(n):
            on = z3.simplify(mask.lanes[k].t == z3.BitVecVal(1, 1))
            off_k = p.off + k * esz
            ex.oblige(st, "oob", z3.Implies(on, z3.And(off_k >= 0, off_k + esz <= size)), where + f" lane {k}")
            if z3.is_false(on):
                continue
            lane = v.lanes[k]
            val = z3.FreshConst(z3.RealSort(), "undef") if isinstance(lane, UndefV) else ex.lane_real(lane).t
            idx = z3.simplify(idx0 + k)
            a.content = z3.Store(a.content, idx, z3.If(on, val, z3.Select(a.content, idx)))
        return None
    if name.startswith("llvm.memcpy."):
        dst, src, n = args[0], args[1], as_int(to_int(args[2]))
        if n is None:
            raise LLUnsupported("memcpy with symbolic length")
        da, sa = st.mem[dst.alloc.id], st.mem[src.alloc.id]
        do, so = as_int(dst.off), as_int(src.off)
        if da.kind == "cells" and sa.kind == "cells" and do is not None and so is not None:
            ex.access_check(st, dst, n, where, write=True)
            ex.access_check(st, src, n, where)
            for off, (v, sz) in list(sa.cells.items()):
                if so <= off < so + n:
                    da.cells[off - so + do] = (v, sz)
            return None
        if sa.kind == "array" and da.kind in ("array", "untyped"):
            ex.ensure_typed(da, sa.elem)
            esz = sa.elem[1]
            if n % esz or da.elem != sa.elem:
                raise LLUnsupported("memcpy element mismatch")
            ex.access_check(st, dst, n, where, write=True)
            ex.access_check(st, src, n, where)
            di = ex.elem_index(st, da, dst.off, esz, where)
            si = ex.elem_index(st, sa, src.off, esz, where)
            for k in range(n // esz):
                da.content = z3.Store(da.content, z3.simplify(di + k), z3.Select(sa.content, z3.simplify(si + k)))
            return None
        raise LLUnsupported("memcpy between these allocations")
    if name.startswith("llvm.memset."):
        dst, val, n = args[0], as_int(to_int(args[1])), as_int(to_int(args[2]))
        if n is None or val != 0:
            raise LLUnsupported("memset (only zero fill of concrete length)")
        da = st.mem[dst.alloc.id]
        ex.access_check(st, dst, n, where, write=True)
        if da.kind == "array":
            esz = da.elem[1]
            di = ex.elem_index(st, da, dst.off, esz, where)
            zero = z3.RealVal(0) if da.elem[0] == "f" else z3.IntVal(0)
            for k in range(n // esz):
                da.content = z3.Store(da.content, z3.simplify(di + k), zero)
            return None
        raise LLUnsupported("memset of a struct allocation")
    raise LLUnsupported(f"external function / intrinsic {name}")
