"""Parser for the textual LLVM IR subset that clang-14 -O0 (+ always-inline,
mem2reg) produces for Exo-generated C.  Anything not recognised raises
LLParseError (the check turns that into a harness error, never a pass)."""
from __future__ import annotations

import re
import struct
from dataclasses import dataclass, field
from fractions import Fraction
from typing import Any, Dict, List, Optional, Tuple


class LLParseError(Exception):
    pass


# ---------------------------------------------------------------------------
# types


@dataclass(frozen=True)
class Ty:
    k: str  # 'int' 'float' 'double' 'half' 'void' 'ptr' 'arr' 'vec' 'struct' 'named' 'label' 'metadata' 'func'
    bits: int = 0
    elem: Any = None
    n: int = 0
    fields: tuple = ()
    name: str = ""

    def __str__(self):
        if self.k == "int":
            return f"i{self.bits}"
        if self.k in ("float", "double", "half", "void", "label", "metadata"):
            return self.k
        if self.k == "ptr":
            return f"{self.elem}*"
        if self.k == "arr":
            return f"[{self.n} x {self.elem}]"
        if self.k == "vec":
            return f"<{self.n} x {self.elem}>"
        if self.k == "struct":
            return "{" + ", ".join(map(str, self.fields)) + "}"
        if self.k == "named":
            return "%" + self.name
        return self.k


I1, I8, I32, I64 = Ty("int", 1), Ty("int", 8), Ty("int", 32), Ty("int", 64)
FLOAT, DOUBLE, VOID = Ty("float"), Ty("double"), Ty("void")


def is_fp(t):
    return t.k in ("float", "double", "half")


class Tok:
    TOKEN_RE = re.compile(
        r"""\s*(
            c"(?:[^"\\]|\\.)*" |
            "(?:[^"\\]|\\.)*" |
            %"[^"]*" | @"[^"]*" |
            [%@][-a-zA-Z$._0-9]+ |
            ![-a-zA-Z$._0-9]* |
            \#\d+ |
            0x[KLMHR]?[0-9A-Fa-f]+ |
            [-+]?\d+\.\d*(?:[eE][-+]?\d+)? |
            [-+]?\d+ |
            \.\.\. |
            [a-zA-Z_][a-zA-Z0-9_.]* |
            [\[\]<>{}(),=*:]
        )""",
        re.X,
    )

    def __init__(self, text):
        self.toks = []
        pos = 0
        text = text.strip()
        while pos < len(text):
            m = Tok.TOKEN_RE.match(text, pos)
            if not m:
                if text[pos:].strip() == "":
                    break
                raise LLParseError(f"cannot tokenize: {text[pos:pos+40]!r}")
            self.toks.append(m.group(1))
            pos = m.end()
        self.i = 0

    def peek(self, k=0):
        return self.toks[self.i + k] if self.i + k < len(self.toks) else None

    def next(self):
        t = self.peek()
        if t is None:
            raise LLParseError("unexpected end of line")
        self.i += 1
        return t

    def expect(self, t):
        x = self.next()
        if x != t:
            raise LLParseError(f"expected {t!r}, got {x!r} in {' '.join(self.toks)}")

    def accept(self, t):
        if self.peek() == t:
            self.i += 1
            return True
        return False

    def done(self):
        return self.i >= len(self.toks)


ATTR_WORDS = {
    "noundef", "nonnull", "nocapture", "readonly", "readnone", "writeonly", "signext", "zeroext", "inreg", "noalias", "returned", "immarg", "nofree", "nest",
    "dso_local", "internal", "private", "external", "hidden", "unnamed_addr", "local_unnamed_addr", "global", "constant", "common", "weak", "linkonce_odr", "available_externally",
    "fastcc", "ccc", "tail", "musttail", "notail", "nsw", "nuw", "exact", "inbounds", "volatile", "fast", "nnan", "ninf", "nsz", "arcp", "contract", "afn", "reassoc",
}


def parse_type(tk: Tok) -> Ty:
    t = tk.next()
    if re.fullmatch(r"i\d+", t):
        ty = Ty("int", int(t[1:]))
    elif t in ("float", "double", "half", "void", "label", "metadata"):
        ty = Ty(t)
    elif t == "ptr":
        ty = Ty("ptr", elem=I8)
    elif t == "[":
        n = int(tk.next())
        tk.expect("x")
        e = parse_type(tk)
        tk.expect("]")
        ty = Ty("arr", elem=e, n=n)
    elif t == "<":
        if tk.peek() == "{":  # packed struct
            tk.next()
            fs = []
            if not tk.accept("}"):
                while True:
                    fs.append(parse_type(tk))
                    if tk.accept("}"):
                        break
                    tk.expect(",")
            tk.expect(">")
            ty = Ty("struct", fields=tuple(fs), name="packed")
        else:
            n = int(tk.next())
            tk.expect("x")
            e = parse_type(tk)
            tk.expect(">")
            ty = Ty("vec", elem=e, n=n)
    elif t == "{":
        fs = []
        if not tk.accept("}"):
            while True:
                fs.append(parse_type(tk))
                if tk.accept("}"):
                    break
                tk.expect(",")
        ty = Ty("struct", fields=tuple(fs))
    elif t.startswith("%"):
        ty = Ty("named", name=t[1:].strip('"'))
    elif t == "opaque":
        ty = Ty("struct", fields=())
    else:
        raise LLParseError(f"unknown type token {t!r}")
    # suffixes: pointers, function types
    while True:
        if tk.peek() == "*":
            tk.next()
            ty = Ty("ptr", elem=ty)
        elif tk.peek() == "(":
            # function type: ret (params)
            depth = 0
            while True:
                x = tk.next()
                if x == "(":
                    depth += 1
                elif x == ")":
                    depth -= 1
                    if depth == 0:
                        break
            ty = Ty("func", elem=ty)
        elif tk.peek() == "addrspace":
            tk.next()
            tk.expect("(")
            tk.next()
            tk.expect(")")
        else:
            break
    return ty


# ---------------------------------------------------------------------------
# operands


@dataclass
class Op:
    k: str  # 'reg' 'glob' 'int' 'fp' 'null' 'undef' 'zero' 'vec' 'struct' 'arr' 'cexpr' 'bool' 'str' 'meta'
    v: Any = None
    ty: Optional[Ty] = None


def shortest_decimal(d: float, single: bool) -> Fraction:
    """literal -> rational, exactly as loopsym reads literals (common.simple_rational)"""
    from ..common import simple_rational

    return simple_rational(d, single)


def parse_fp(tok: str, ty: Ty) -> Fraction:
    single = ty is not None and (ty.k == "float" or (ty.k == "vec" and ty.elem.k == "float"))
    return shortest_decimal(float(_parse_fp_exact(tok, ty)), single)


def _parse_fp_exact(tok: str, ty: Ty) -> Fraction:
    if tok.startswith("0x"):
        body = tok[2:]
        if body[0] in "KLMHR":
            if body[0] == "H":
                bits = int(body[1:], 16)
                return Fraction(struct.unpack("<e", struct.pack("<H", bits))[0])
            raise LLParseError(f"unsupported fp literal {tok}")
        bits = int(body, 16)
        d = struct.unpack("<d", struct.pack("<Q", bits))[0]
        if d != d or d in (float("inf"), float("-inf")):
            raise LLParseError(f"non-finite fp literal {tok}")
        return Fraction(d)
    d = float(tok)
    return Fraction(d)


def parse_value(tk: Tok, ty: Ty) -> Op:
    t = tk.next()
    if t.startswith("%"):
        return Op("reg", t[1:].strip('"'), ty)
    if t.startswith("@"):
        return Op("glob", t[1:].strip('"'), ty)
    if t in ("true", "false"):
        return Op("int", 1 if t == "true" else 0, ty)
    if t == "null":
        return Op("null", None, ty)
    if t in ("undef", "poison"):
        return Op("undef", None, ty)
    if t == "zeroinitializer":
        return Op("zero", None, ty)
    if t == "<":
        elems = []
        while True:
            et = parse_type(tk)
            elems.append(parse_value(tk, et))
            if tk.accept(">"):
                break
            tk.expect(",")
        return Op("vec", elems, ty)
    if t == "{" or t == "[":
        close = "}" if t == "{" else "]"
        elems = []
        if not tk.accept(close):
            while True:
                et = parse_type(tk)
                elems.append(parse_value(tk, et))
                if tk.accept(close):
                    break
                tk.expect(",")
        return Op("struct" if t == "{" else "arr", elems, ty)
    if t.startswith('c"'):
        return Op("str", t, ty)
    if t in ("getelementptr", "bitcast", "inttoptr", "ptrtoint"):
        # constant expression
        flags = []
        while tk.peek() in ATTR_WORDS:
            flags.append(tk.next())
        tk.expect("(")
        if t == "getelementptr":
            bty = parse_type(tk)
            tk.expect(",")
            pty = parse_type(tk)
            base = parse_value(tk, pty)
            idx = []
            while tk.accept(","):
                while tk.peek() in ("inrange",):
                    tk.next()
                ity = parse_type(tk)
                idx.append(parse_value(tk, ity))
            tk.expect(")")
            return Op("cexpr", ("gep", bty, base, idx), ty)
        sty = parse_type(tk)
        src = parse_value(tk, sty)
        tk.expect("to")
        dty = parse_type(tk)
        tk.expect(")")
        return Op("cexpr", (t, src, dty), ty)
    if is_fp(ty) or (ty.k == "vec" and is_fp(ty.elem)):
        return Op("fp", parse_fp(t, ty), ty)
    if re.fullmatch(r"[-+]?\d+", t):
        return Op("int", int(t), ty)
    if re.fullmatch(r"[-+]?\d+\.\d*(?:[eE][-+]?\d+)?", t) or t.startswith("0x"):
        return Op("fp", parse_fp(t, ty), ty)
    raise LLParseError(f"unknown operand token {t!r}")


def parse_typed(tk: Tok) -> Op:
    ty = parse_type(tk)
    while tk.peek() in ATTR_WORDS or (tk.peek() or "").startswith("align") or tk.peek() in ("byval", "sret", "dereferenceable", "dereferenceable_or_null", "elementtype"):
        w = tk.next()
        if w in ("byval", "sret", "dereferenceable", "dereferenceable_or_null", "elementtype") and tk.peek() == "(":
            tk.next()
            depth = 1
            while depth:
                x = tk.next()
                depth += x == "("
                depth -= x == ")"
        elif w == "align":
            tk.next()
    return parse_value(tk, ty)


# ---------------------------------------------------------------------------
# instructions


@dataclass
class Instr:
    op: str
    dst: Optional[str] = None
    ty: Optional[Ty] = None
    args: list = field(default_factory=list)
    flags: tuple = ()
    extra: Any = None
    text: str = ""


@dataclass
class Param:
    name: str
    ty: Ty
    byval: Optional[Ty] = None
    attrs: tuple = ()


@dataclass
class Function:
    name: str
    ret: Ty
    params: List[Param]
    blocks: Dict[str, List[Instr]]
    order: List[str]
    internal: bool = False


@dataclass
class Global:
    name: str
    ty: Ty
    init: Optional[Op]
    constant: bool


@dataclass
class Module:
    structs: Dict[str, Ty]
    functions: Dict[str, Function]
    declares: Dict[str, Ty]
    globals: Dict[str, Global]
    datalayout: str = ""


BINOPS = {"add", "sub", "mul", "sdiv", "srem", "udiv", "urem", "shl", "lshr", "ashr", "and", "or", "xor", "fadd", "fsub", "fmul", "fdiv", "frem"}
CASTS = {"bitcast", "sext", "zext", "trunc", "fpext", "fptrunc", "sitofp", "uitofp", "fptosi", "fptoui", "ptrtoint", "inttoptr", "addrspacecast"}


def strip_meta(line: str) -> str:
    # drop trailing metadata attachments ", !dbg !12", ", !llvm.loop !6", ", !tbaa !3"
    out = re.sub(r",\s*![a-zA-Z_.]+\s+!\d+", "", line)
    out = re.sub(r"\s+#\d+\s*$", "", out)
    return out


def parse_instr(line: str) -> Instr:
    text = line.strip()
    line = strip_meta(text)
    tk = Tok(line)
    dst = None
    if tk.peek(1) == "=":
        dst = tk.next()[1:].strip('"')
        tk.next()
    op = tk.next()
    flags = []
    while op in ("tail", "musttail", "notail"):
        op = tk.next()
    ins = Instr(op, dst, text=text)
    if op in BINOPS or op == "fneg":
        while tk.peek() in ATTR_WORDS:
            flags.append(tk.next())
        ty = parse_type(tk)
        a = parse_value(tk, ty)
        if op == "fneg":
            ins.ty, ins.args = ty, [a]
        else:
            tk.expect(",")
            b = parse_value(tk, ty)
            ins.ty, ins.args = ty, [a, b]
        ins.flags = tuple(flags)
        return ins
    if op in ("icmp", "fcmp"):
        while tk.peek() in ATTR_WORDS:
            tk.next()
        pred = tk.next()
        ty = parse_type(tk)
        a = parse_value(tk, ty)
        tk.expect(",")
        b = parse_value(tk, ty)
        ins.ty, ins.args, ins.extra = ty, [a, b], pred
        return ins
    if op in CASTS:
        a = parse_typed(tk)
        tk.expect("to")
        ty = parse_type(tk)
        ins.ty, ins.args = ty, [a]
        return ins
    if op == "alloca":
        while tk.peek() in ("inalloca",):
            tk.next()
        ty = parse_type(tk)
        count = None
        if tk.accept(","):
            if tk.peek() == "align":
                tk.next()
                tk.next()
            else:
                count = parse_typed(tk)
                if tk.accept(","):
                    tk.next()
                    tk.next()
        ins.ty, ins.extra = ty, count
        return ins
    if op == "load":
        while tk.peek() in ("volatile", "atomic"):
            tk.next()
        ty = parse_type(tk)
        tk.expect(",")
        p = parse_typed(tk)
        align = None
        if tk.accept(","):
            if tk.accept("align"):
                align = int(tk.next())
        ins.ty, ins.args, ins.extra = ty, [p], align
        return ins
    if op == "store":
        while tk.peek() in ("volatile", "atomic"):
            tk.next()
        v = parse_typed(tk)
        tk.expect(",")
        p = parse_typed(tk)
        align = None
        if tk.accept(","):
            if tk.accept("align"):
                align = int(tk.next())
        ins.args, ins.extra = [v, p], align
        return ins
    if op == "getelementptr":
        while tk.peek() in ATTR_WORDS:
            flags.append(tk.next())
        bty = parse_type(tk)
        tk.expect(",")
        p = parse_typed(tk)
        idx = []
        while tk.accept(","):
            idx.append(parse_typed(tk))
        ins.ty, ins.args, ins.flags = bty, [p] + idx, tuple(flags)
        return ins
    if op == "phi":
        while tk.peek() in ATTR_WORDS:
            tk.next()
        ty = parse_type(tk)
        inc = []
        while True:
            tk.expect("[")
            v = parse_value(tk, ty)
            tk.expect(",")
            lab = tk.next()[1:].strip('"')
            tk.expect("]")
            inc.append((v, lab))
            if not tk.accept(","):
                break
        ins.ty, ins.args = ty, inc
        return ins
    if op == "br":
        if tk.peek() == "label":
            tk.next()
            ins.args = [tk.next()[1:].strip('"')]
        else:
            c = parse_typed(tk)
            tk.expect(",")
            tk.expect("label")
            a = tk.next()[1:].strip('"')
            tk.expect(",")
            tk.expect("label")
            b = tk.next()[1:].strip('"')
            ins.args = [c, a, b]
        return ins
    if op == "switch":
        c = parse_typed(tk)
        tk.expect(",")
        tk.expect("label")
        default = tk.next()[1:].strip('"')
        tk.expect("[")
        cases = []
        while not tk.accept("]"):
            v = parse_typed(tk)
            tk.expect(",")
            tk.expect("label")
            cases.append((v, tk.next()[1:].strip('"')))
        ins.args = [c, default, cases]
        return ins
    if op == "ret":
        if tk.peek() == "void":
            ins.args = []
        else:
            ins.args = [parse_typed(tk)]
        return ins
    if op == "unreachable":
        return ins
    if op == "select":
        while tk.peek() in ATTR_WORDS:
            tk.next()
        c = parse_typed(tk)
        tk.expect(",")
        a = parse_typed(tk)
        tk.expect(",")
        b = parse_typed(tk)
        ins.ty, ins.args = a.ty, [c, a, b]
        return ins
    if op == "call":
        while tk.peek() in ATTR_WORDS or tk.peek() in ("fastcc", "ccc"):
            tk.next()
        # return attributes
        while tk.peek() in ("noundef", "signext", "zeroext", "nonnull", "noalias") or (tk.peek() or "").startswith("align"):
            w = tk.next()
            if w == "align":
                tk.next()
        rty = parse_type(tk)
        # optional function type "(...)" already swallowed by parse_type as func; callee follows
        callee = tk.next()
        if callee == "(":
            raise LLParseError("indirect/varargs call signature")
        if callee.startswith("%"):
            raise LLParseError("indirect call")
        if callee == "asm":
            raise LLParseError("inline asm")
        tk.expect("(")
        args = []
        if not tk.accept(")"):
            while True:
                args.append(parse_typed(tk))
                if tk.accept(")"):
                    break
                tk.expect(",")
        if rty.k == "func":
            rty = rty.elem
        ins.ty, ins.args, ins.extra = rty, args, callee[1:].strip('"')
        return ins
    if op in ("insertelement", "extractelement", "shufflevector"):
        a = parse_typed(tk)
        tk.expect(",")
        b = parse_typed(tk)
        args = [a, b]
        if op != "extractelement":
            tk.expect(",")
            args.append(parse_typed(tk))
        ins.args = args
        ins.ty = a.ty
        return ins
    if op in ("extractvalue", "insertvalue"):
        a = parse_typed(tk)
        args = [a]
        if op == "insertvalue":
            tk.expect(",")
            args.append(parse_typed(tk))
        idx = []
        while tk.accept(","):
            idx.append(int(tk.next()))
        ins.args, ins.extra, ins.ty = args, idx, a.ty
        return ins
    if op == "freeze":
        a = parse_typed(tk)
        ins.args, ins.ty = [a], a.ty
        return ins
    raise LLParseError(f"unknown instruction {op!r}: {text}")


def parse_module(text: str) -> Module:
    mod = Module({}, {}, {}, {})
    lines = text.splitlines()
    i = 0
    while i < len(lines):
        line = lines[i]
        s = line.strip()
        i += 1
        if not s or s.startswith(";") or s.startswith("source_filename") or s.startswith("target triple") or s.startswith("attributes") or s.startswith("!"):
            continue
        if s.startswith("target datalayout"):
            mod.datalayout = s.split("=", 1)[1].strip().strip('"')
            continue
        m = re.match(r'^(%[-\w.$"]+)\s*=\s*type\s+(.*)$', s)
        if m:
            tk = Tok(m.group(2))
            mod.structs[m.group(1)[1:].strip('"')] = parse_type(tk)
            continue
        if s.startswith("@"):
            m = re.match(r'^@([-\w.$"]+)\s*=\s*(.*)$', s)
            if not m:
                raise LLParseError(f"global: {s}")
            rest = strip_meta(m.group(2))
            rest = re.sub(r",\s*align\s+\d+\s*$", "", rest)
            rest = re.sub(r",\s*(section|comdat)\b.*$", "", rest)
            tk = Tok(rest)
            const = False
            while tk.peek() in ATTR_WORDS or tk.peek() in ("thread_local",):
                w = tk.next()
                if w == "constant":
                    const = True
            ty = parse_type(tk)
            init = None
            if not tk.done():
                init = parse_value(tk, ty)
            mod.globals[m.group(1).strip('"')] = Global(m.group(1).strip('"'), ty, init, const)
            continue
        if s.startswith("declare"):
            m = re.search(r"@([-\w.$]+)\s*\(", s)
            if m:
                mod.declares[m.group(1)] = None
            continue
        if s.startswith("define"):
            hdr = s
            m = re.match(r"^define\s+(.*?)@([-\w.$]+)\s*\((.*)\)\s*[^()]*\{\s*$", hdr)
            if not m:
                raise LLParseError(f"define: {hdr}")
            pre, name, params_txt = m.group(1), m.group(2), m.group(3)
            tkp = Tok(pre)
            internal = False
            while tkp.peek() in ATTR_WORDS or tkp.peek() in ("noundef", "signext", "zeroext"):
                if tkp.next() in ("internal", "private"):
                    internal = True
            ret = parse_type(tkp)
            params = []
            if params_txt.strip():
                tk = Tok(params_txt)
                while True:
                    if tk.peek() == "...":
                        raise LLParseError("varargs definition")
                    ty = parse_type(tk)
                    byval = None
                    attrs = []
                    while tk.peek() is not None and not tk.peek().startswith("%") and tk.peek() != ",":
                        w = tk.next()
                        attrs.append(w)
                        if w in ("byval", "sret", "dereferenceable", "dereferenceable_or_null", "align") :
                            if tk.peek() == "(":
                                tk.next()
                                if w == "byval":
                                    byval = parse_type(tk)
                                    tk.expect(")")
                                else:
                                    depth = 1
                                    while depth:
                                        x = tk.next()
                                        depth += x == "("
                                        depth -= x == ")"
                            elif w == "align":
                                tk.next()
                    pname = tk.next()[1:].strip('"') if (tk.peek() or "").startswith("%") else f"arg{len(params)}"
                    params.append(Param(pname, ty, byval, tuple(attrs)))
                    if not tk.accept(","):
                        break
            blocks: Dict[str, List[Instr]] = {}
            order: List[str] = []
            # entry label is the next unnamed value number: count of params
            cur = None
            body = []
            while i < len(lines):
                l = lines[i]
                i += 1
                ls = l.strip()
                if ls == "}":
                    break
                if not ls or ls.startswith(";"):
                    continue
                lm = re.match(r'^([-\w.$"]+):', ls)
                if lm and not ls.startswith("%"):
                    cur = lm.group(1).strip('"')
                    blocks[cur] = []
                    order.append(cur)
                    continue
                if cur is None:
                    cur = "__entry__"
                    blocks[cur] = []
                    order.append(cur)
                blocks[cur].append(parse_instr(ls))
            mod.functions[name] = Function(name, ret, params, blocks, order, internal)
            continue
        raise LLParseError(f"unrecognised top-level line: {s[:100]}")
    return mod
