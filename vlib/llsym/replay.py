"""Native replay of llsym counterexamples: the emitted C is built with gcc and
-fsanitize=address,undefined and run on the concrete inputs of the model."""
from __future__ import annotations

import os
import re
import shutil
import subprocess
from fractions import Fraction
from pathlib import Path

from ..common import WORK

GCC = shutil.which("gcc") or "gcc"


def _lit(s, cty):
    fr = Fraction(s)
    if cty in ("float", "double", "_Float16"):
        return repr(float(fr)) + ("f" if cty == "float" else "")
    return str(int(fr))


def make_main(params, infos, cfields, model):
    lines = ["#include <stdio.h>", "#include <stdlib.h>", "#include <string.h>", "int main(void) {"]
    info_by_pos = {i.pos: i for i in infos}
    call = []
    outs = []
    for nm, cty, role in params:
        if role[0] == "ctrl":
            v = model["args"][role[1]]["value"]
            call.append(str(int(v)) if not isinstance(v, bool) else ("1" if v else "0"))
        elif role[0] == "data":
            pos = role[1]
            a = model["args"][pos]
            info = info_by_pos[pos]
            ety = info.ctype
            cap = max(1, a["cap"])
            lines.append(f"  {ety} *b{pos} = ({ety}*) malloc({cap} * sizeof({ety}));")
            for k, dv in enumerate(a["data"][:cap]):
                lines.append(f"  b{pos}[{k}] = {_lit(dv, ety)};")
            call.append(f"b{pos} + {a['offset']}")
            outs.append((pos, cap, ety))
        elif role[0] == "stride":
            _, pos, k = role
            call.append(str(model["args"][pos]["strides"][k]))
        elif role[0] == "cfg":
            _, cfg, fld, cty2 = role
            v = model["cfg"].get(f"{cfg}.{fld}", "0")
            if v in ("True", "False"):
                v = "1" if v == "True" else "0"
            lines.append(f"  {cty2} c_{cfg}_{fld} = {_lit(v, cty2) if cty2 != 'bool' else v};")
            call.append(f"&c_{cfg}_{fld}")
            outs.append((f"{cfg}.{fld}", None, cty2))
    lines.append(f"  vdrv__({', '.join(call)});")
    for key, cap, ety in outs:
        if cap is None:
            cfg, fld = key.split(".")
            fmt = "%a" if ety in ("float", "double") else "%lld"
            cast = "(double)" if ety in ("float", "double") else "(long long)"
            lines.append(f'  printf("CFG {key} {fmt}\\n", {cast}c_{cfg}_{fld});')
        else:
            fmt = "%a" if ety in ("float", "double", "_Float16") else "%lld"
            cast = "(double)" if ety in ("float", "double", "_Float16") else "(long long)"
            lines.append(f'  for (int k = 0; k < {cap}; k++) printf("BUF {key} %d {fmt}\\n", k, {cast}b{key}[k]);')
            lines.append(f"  free(b{key});")
    lines.append("  return 0;\n}")
    return "\n".join(lines) + "\n"


def native_run(c_text, h_text, drv_text, params, infos, cfields, model, tag, flags=()):
    d = WORK / "llsym_replay" / tag
    d.mkdir(parents=True, exist_ok=True)
    (d / "t.h").write_text(h_text)
    (d / "r.c").write_text(c_text + drv_text + make_main(params, infos, cfields, model))
    exe = d / "r.exe"
    r = subprocess.run([GCC, "-O0", "-g", "-fsanitize=address,undefined", "-fno-sanitize-recover=undefined", "-fno-omit-frame-pointer", "-I", str(d), *flags, str(d / "r.c"), "-o", str(exe), "-lm"], capture_output=True, text=True)
    if r.returncode != 0:
        return {"status": "build_failed", "stderr": r.stderr[-800:]}
    env = dict(os.environ)
    env["ASAN_OPTIONS"] = "detect_leaks=1:abort_on_error=0"
    try:
        p = subprocess.run([str(exe)], capture_output=True, text=True, timeout=30, env=env)
    except subprocess.TimeoutExpired:
        return {"status": "timeout"}
    out = {"status": "ran", "rc": p.returncode, "bufs": {}, "cfg": {}, "sanitizer": None}
    m = re.search(r"(ERROR: AddressSanitizer: [\w-]+|runtime error: [^\n]+|ERROR: LeakSanitizer: [^\n]+)", p.stderr)
    if m:
        out["sanitizer"] = m.group(1)
    for line in p.stdout.splitlines():
        t = line.split()
        if t and t[0] == "BUF":
            out["bufs"].setdefault(int(t[1]), {})[int(t[2])] = float.fromhex(t[3]) if "0x" in t[3] or "inf" in t[3] or "nan" in t[3] else int(t[3])
        elif t and t[0] == "CFG":
            out["cfg"][t[1]] = float.fromhex(t[2]) if "0x" in t[2] else int(t[2])
    shutil.rmtree(d, ignore_errors=True)
    return out
