"""loopsym -- bounded symbolic interpreter of Exo LoopIR into z3 (engine E1).

The interpreter walks a real ``LoopIR.proc`` (taken from a live ``Procedure``
object, never from printed text) and produces

* z3 terms for the final contents of every argument buffer / scalar / config
  field,
* a list of proof obligations (bounds, window, loop range, call preconditions,
  unwinding, ...), each already of the form ``guard => phi``,
* an access log (used for the race check C09).

Semantics: DESIGN.md Appendix A.  Control values are z3 Int/Bool, data values
are exact reals paired with a "defined" bit.

A second, solver-free interpreter (``ConcExec``) with Python ints / Fractions
implements the same semantics and is used to replay counterexamples and to
validate this encoder against natively compiled C.
"""
from __future__ import annotations

import itertools
from dataclasses import dataclass, field
from fractions import Fraction
from typing import Any, Dict, List, Optional, Tuple

import z3

from exo.core.LoopIR import LoopIR, T

from .common import simple_rational

# ---------------------------------------------------------------------------
# helpers


def const_value(e):
    """value of a data expression built from literals only, computed in IEEE double the way the compiler's
    own constant folder (and a C compiler) computes it; None when e is not a constant expression.  Literal
    rounding is outside every claim, so both sides of a comparison must fold constants the same way."""
    if isinstance(e, LoopIR.Const):
        if isinstance(e.val, bool):
            return None
        return float(e.val)
    if isinstance(e, LoopIR.USub):
        v = const_value(e.arg)
        return None if v is None else -v
    if isinstance(e, LoopIR.BinOp) and e.op in ("+", "-", "*", "/"):
        a = const_value(e.lhs)
        b = const_value(e.rhs)
        if a is None or b is None:
            return None
        try:
            return {"+": a + b, "-": a - b, "*": a * b}[e.op] if e.op != "/" else a / b
        except (ZeroDivisionError, OverflowError):
            return None
    return None


def cfg_writes_in(stmts, depth=0, out=None):
    """(config object, field) pairs that the statements may write, directly or in callees"""
    out = [] if out is None else out
    for st in stmts:
        if isinstance(st, LoopIR.WriteConfig):
            if not any(c is st.config and f == st.field for c, f in out):
                out.append((st.config, st.field))
        elif isinstance(st, LoopIR.Call) and depth < 6:
            cfg_writes_in(st.f.body, depth + 1, out)
        for attr in ("body", "orelse"):
            sub = getattr(st, attr, None)
            if sub:
                cfg_writes_in(sub, depth, out)
    return out


class Unsupported(Exception):
    """construct outside the encoded subset -> instance inconclusive"""


class TooBig(Exception):
    """unrolled program exceeds the statement budget / unroll cap"""


class IllFormed(Exception):
    """the procedure uses a symbol that is not bound in scope"""


class Env(dict):
    def __missing__(self, key):
        raise IllFormed(f"use of {key!r} outside the scope of any declaration")


def is_ctrl_type(t) -> bool:
    return isinstance(t, (T.Bool, T.Int, T.Index, T.Size, T.Stride))


def is_num_scalar(t) -> bool:
    return t.is_real_scalar()


def _And(*xs):
    ys = []
    for x in xs:
        if x is True:
            continue
        if x is False:
            return False
        if z3.is_true(x):
            continue
        if z3.is_false(x):
            return False
        ys.append(x)
    if not ys:
        return True
    if len(ys) == 1:
        return ys[0]
    return z3.And(*ys)


def _Not(x):
    if x is True:
        return False
    if x is False:
        return True
    return z3.Not(x)


def _Implies(g, x):
    if g is True:
        return x
    if g is False:
        return True
    if x is True:
        return True
    if x is False:
        return z3.Not(g)
    return z3.Implies(g, x)


def _b(x):
    """python bool / z3 bool -> z3 bool"""
    if x is True:
        return z3.BoolVal(True)
    if x is False:
        return z3.BoolVal(False)
    return x


def _If(c, a, b):
    if c is True:
        return a
    if c is False:
        return b
    return z3.If(c, a, b)


# uninterpreted math functions shared by every encoding (loopsym and llsym)
_UF: Dict[str, Any] = {}


def uf(name: str, arity: int = 1):
    key = (name, arity)
    if key not in _UF:
        _UF[key] = z3.Function("uf_" + name, *([z3.RealSort()] * (arity + 1)))
    return _UF[key]


# ---------------------------------------------------------------------------
# stores and references


class Store:
    """one allocation / argument buffer; rank-0 stores hold a scalar"""

    _ctr = itertools.count()

    def __init__(self, name, shape, val, dfn, strides=None, kind="alloc", pos=None):
        self.uid = next(Store._ctr)
        self.name = name
        self.shape = list(shape)  # z3 Int terms (or python ints in ConcExec)
        self.rank = len(self.shape)
        self.val = val
        self.dfn = dfn
        self.strides = strides  # optional explicit stride terms (window args)
        self.kind = kind
        self.pos = pos
        self.flat = None  # optional (offset term, [stride terms]): val is then a 1-D array of flat addresses

    def addr(self, base):
        """index list used on the backing array"""
        if self.flat is None:
            return list(base)
        off, strides = self.flat
        a = off
        for i, s_ in zip(base, strides):
            a = a + i * s_
        return [z3.simplify(a) if z3.is_expr(a) else a]

    def clone(self):
        s = Store(self.name, self.shape, self.val, self.dfn, self.strides, self.kind, self.pos)
        s.flat = self.flat
        return s


@dataclass
class Ref:
    """a view of a store: per base dimension a point or an interval"""

    store: Store
    dims: List[tuple]  # ('pt', e) | ('iv', off, extent)

    def rank(self):
        return sum(1 for d in self.dims if d[0] == "iv")

    def extents(self):
        return [d[2] for d in self.dims if d[0] == "iv"]

    def base_index(self, idx):
        out = []
        it = iter(idx)
        for d in self.dims:
            if d[0] == "pt":
                out.append(d[1])
            else:
                out.append(d[1] + next(it))
        return out

    def iv_base_dims(self):
        return [k for k, d in enumerate(self.dims) if d[0] == "iv"]


def full_ref(store: Store) -> Ref:
    return Ref(store, [("iv", 0, e) for e in store.shape])


@dataclass
class Obl:
    kind: str
    formula: Any  # z3 Bool: guard => phi
    where: str


@dataclass
class Access:
    kind: str  # 'r' | 'w' | 'red'
    store: Store
    idx: list
    guard: Any
    par: tuple  # ((loop_uid, k), ...)
    where: str


# ---------------------------------------------------------------------------
# inputs


@dataclass
class Bounds:
    size_max: int = 3
    idx_min: int = -2
    idx_max: int = 4
    unroll_cap: int = 12
    stmt_budget: int = 1500
    win_stride_max: int = 0  # 0: window args get symbolic strides >= 1 w/o upper bound
    unbounded: bool = False  # sizes / index arguments unbounded (only sizes >= 1); loops are summarised, not unrolled


class Inputs:
    """Symbolic inputs of a procedure, keyed by argument *position*.

    The same Inputs object is used to run a procedure and the procedures
    derived from it so that both see the same initial state.
    """

    def __init__(self, proc, bounds: Bounds, tag: str = ""):
        self.proc = proc
        self.bounds = bounds
        self.tag = tag
        self.assumptions: List[Any] = []
        self.ctrl: List[Any] = []  # per position: z3 term or None
        self.stores: List[Optional[Store]] = []
        self.vars: List[Tuple[str, Any]] = []  # (description, z3 var)
        self.cfg0: Dict[Tuple[str, str], Any] = {}
        self._cfg_objs: Dict[Tuple[str, str], Any] = {}
        env: Dict[Any, Any] = {}
        ev = SymExec(self, None)
        for pos, a in enumerate(proc.args):
            t = a.type
            nm = f"{tag}a{pos}_{a.name.name()}"
            if is_ctrl_type(t):
                if isinstance(t, T.Bool):
                    v = z3.Bool(nm)
                else:
                    v = z3.Int(nm)
                    if isinstance(t, T.Size):
                        self.assumptions += [v >= 1] if bounds.unbounded else [v >= 1, v <= bounds.size_max]
                    else:
                        self.assumptions += [] if bounds.unbounded else [v >= bounds.idx_min, v <= bounds.idx_max]
                self.vars.append((nm, v))
                self.ctrl.append(v)
                self.stores.append(None)
                env[a.name] = v
            else:
                shape_e = t.shape() if t.is_tensor_or_window() else []
                shape = [ev.ctrl(e, env) for e in shape_e]
                rank = len(shape)
                if rank == 0:
                    val = z3.Real(nm)
                else:
                    val = z3.Array(nm, *([z3.IntSort()] * rank), z3.RealSort())
                self.vars.append((nm, val))
                strides = None
                if t.is_win():
                    strides = []
                    for k in range(rank):
                        sv = z3.Int(f"{nm}_st{k}")
                        self.vars.append((f"{nm}_st{k}", sv))
                        self.assumptions.append(sv >= 1)
                        strides.append(sv)
                    # non-overlapping layout: s_k >= dim_{k+1} * s_{k+1}
                    for k in range(rank - 1):
                        self.assumptions.append(strides[k] >= shape[k + 1] * strides[k + 1])
                st = Store(nm, shape, val, True, strides, kind="arg", pos=pos)
                self.ctrl.append(None)
                self.stores.append(st)
                env[a.name] = full_ref(st)
        self.env0 = env

    def cfg_var(self, config, fld):
        key = (config.name(), fld)
        if key not in self.cfg0:
            t = config.lookup_type(fld)
            nm = f"{self.tag}cfg_{key[0]}_{fld}"
            if isinstance(t, T.Bool):
                v = z3.Bool(nm)
            elif is_ctrl_type(t):
                v = z3.Int(nm)
                # keep the initial configuration inside a finite box so that
                # loops bounded by config values can be unrolled
                self.assumptions += [] if self.bounds.unbounded else [v >= self.bounds.idx_min, v <= self.bounds.idx_max]
            else:
                v = z3.Real(nm)
            self.cfg0[key] = v
            self._cfg_objs[key] = (config, fld)
            self.vars.append((nm, v))
        return self.cfg0[key]

    def instantiate(self, proc):
        """fresh arg values (copies of the initial stores) for one run of `proc`
        whose signature matches self.proc positionally"""
        vals = []
        for pos, a in enumerate(proc.args):
            if self.ctrl[pos] is not None:
                vals.append(self.ctrl[pos])
            else:
                vals.append(full_ref(self.stores[pos].clone()))
        return vals


# ---------------------------------------------------------------------------
# the symbolic interpreter


class SymExec:
    def __init__(self, inputs: Inputs, solver: Optional[z3.Solver], track_def=True, log_access=False):
        self.inp = inputs
        self.solver = solver
        self.bounds = inputs.bounds
        self.obls: List[Obl] = []
        self.log: List[Access] = []
        self.log_access = log_access
        self.cfg: Dict[Tuple[str, str], Any] = {}
        self.cfg_written: set = set()
        self.nstmts = 0
        self.nloops = 0
        self.max_unroll = 0
        self.par_ctx: tuple = ()
        self._loop_uid = itertools.count()
        self._alloc_ctr = itertools.count()
        self.run_tag = ""
        self.solver_calls = 0
        self.call_depth = 0
        self.cur_guard = True

    # ---- control expressions -------------------------------------------
    def ctrl(self, e, env):
        if isinstance(e, LoopIR.Const):
            if isinstance(e.val, bool):
                return z3.BoolVal(e.val)
            if isinstance(e.val, int):
                return z3.IntVal(e.val)
            raise Unsupported(f"non-integer constant {e.val!r} in control position")
        if isinstance(e, LoopIR.Read):
            if e.idx:
                raise Unsupported("indexed read in control position")
            v = env[e.name]
            if isinstance(v, Ref):
                raise Unsupported("buffer read in control position")
            return v
        if isinstance(e, LoopIR.USub):
            return -self.ctrl(e.arg, env)
        if isinstance(e, LoopIR.BinOp):
            op = e.op
            a = self.ctrl(e.lhs, env)
            b = self.ctrl(e.rhs, env)
            if op == "+":
                return a + b
            if op == "-":
                return a - b
            if op == "*":
                return a * b
            if op == "/":
                return a / b  # z3 Int div: floor for positive divisor
            if op == "%":
                return a % b
            if op == "<":
                return a < b
            if op == ">":
                return a > b
            if op == "<=":
                return a <= b
            if op == ">=":
                return a >= b
            if op == "==":
                return a == b
            if op == "and":
                return z3.And(a, b)
            if op == "or":
                return z3.Or(a, b)
            raise Unsupported(f"control binop {op}")
        if isinstance(e, LoopIR.ReadConfig):
            return self.read_cfg(e.config, e.field)
        if isinstance(e, LoopIR.StrideExpr):
            ref = env[e.name]
            return self.stride_of(ref, e.dim)
        raise Unsupported(f"control expr {type(e).__name__}")

    def read_cfg(self, config, fld):
        key = (config.name(), fld)
        if key not in self.cfg:
            self.cfg[key] = self.inp.cfg_var(config, fld)
        if self.log_access:
            self.log.append(Access("r", ("cfg",) + key, [], self.cur_guard, self.par_ctx, f"read config {key[0]}.{fld}"))
        return self.cfg[key]

    def stride_of(self, ref: Ref, dim: int):
        st = ref.store
        bdim = ref.iv_base_dims()[dim]
        if st.strides is not None:
            return st.strides[bdim]
        # dense row-major
        s = z3.IntVal(1)
        for k in range(st.rank - 1, bdim, -1):
            s = s * st.shape[k]
        return z3.simplify(s)

    # ---- data expressions ----------------------------------------------
    def data(self, e, env, g):
        """-> (z3 Real, defined)"""
        if isinstance(e, LoopIR.Const):
            v = e.val
            if isinstance(v, bool):
                raise Unsupported("bool const as data")
            # literals denote their shortest round-trip decimal (0.1 is 1/10), on both sides of every comparison
            fr = simple_rational(v) if isinstance(v, float) else Fraction(v)
            return z3.RealVal(fr), True
        if isinstance(e, LoopIR.Read):
            v = env[e.name]
            if not isinstance(v, Ref):
                # control value used as data (e.g. index cast) -> integer as real
                if z3.is_int(v):
                    return z3.ToReal(v), True
                raise Unsupported("bool used as data")
            idx = [self.ctrl(i, env) for i in e.idx]
            return self.load(v, idx, g, f"read {e.name}")
        if isinstance(e, LoopIR.USub):
            a, d = self.data(e.arg, env, g)
            return -a, d
        if isinstance(e, LoopIR.BinOp):
            a, da = self.data(e.lhs, env, g)
            b, db = self.data(e.rhs, env, g)
            op = e.op
            d = _And(da, db)
            if op == "+":
                return a + b, d
            if op == "-":
                return a - b, d
            if op == "*":
                return a * b, d
            if op == "/":
                return a / b, d
            raise Unsupported(f"data binop {op}")
        if isinstance(e, LoopIR.Extern):
            args = [self.data(a, env, g) for a in e.args]
            d = _And(*[x[1] for x in args])
            xs = [x[0] for x in args]
            nm = e.f.name()
            if nm == "relu":
                return z3.If(xs[0] > 0, xs[0], z3.RealVal(0)), d
            if nm == "select":
                return z3.If(xs[0] < xs[1], xs[2], xs[3]), d
            if nm == "fmaxf":
                return z3.If(xs[0] >= xs[1], xs[0], xs[1]), d
            if nm == "sigmoid":
                ex_ = uf("exp")(-xs[0])
                # exp is positive: keeps the denominator away from 0 (z3's x/0 is unspecified)
                self.inp.assumptions.append(ex_ > 0)
                return 1 / (1 + ex_), d
            if nm in ("sin", "expf", "sqrt"):
                return uf(nm)(xs[0]), d
            return uf(nm, len(xs))(*xs), d
        if isinstance(e, LoopIR.ReadConfig):
            return self.read_cfg(e.config, e.field), True
        raise Unsupported(f"data expr {type(e).__name__}")

    # ---- memory ----------------------------------------------------------
    def _check_access(self, ref: Ref, idx, g, where):
        if len(idx) != ref.rank():
            raise Unsupported(f"rank mismatch at {where}")
        for k, (i, ext) in enumerate(zip(idx, ref.extents())):
            self.obl("view_extent", g, z3.And(i >= 0, i < ext), f"{where} dim {k}")
        base = ref.base_index(idx)
        for k, (i, ext) in enumerate(zip(base, ref.store.shape)):
            self.obl("bounds", g, z3.And(i >= 0, i < ext), f"{where} base dim {k}")
        return base

    def load(self, ref: Ref, idx, g, where):
        base = self._check_access(ref, idx, g, where)
        st = ref.store
        if self.log_access:
            self.log.append(Access("r", st, base, g, self.par_ctx, where))
        if st.rank == 0 and st.flat is None:
            return st.val, st.dfn
        base = st.addr(base)
        v = z3.Select(st.val, *base)
        d = st.dfn if isinstance(st.dfn, bool) else z3.Select(st.dfn, *base)
        return v, d

    def store_(self, ref: Ref, idx, g, v, d, where, kind):
        base = self._check_access(ref, idx, g, where)
        st = ref.store
        if self.log_access:
            self.log.append(Access(kind, st, base, g, self.par_ctx, where))
        if st.rank == 0 and st.flat is None:
            st.val = _If(g, v, st.val)
            if not (st.dfn is True and d is True):
                st.dfn = _If(g, _b(d), _b(st.dfn))
            return
        base = st.addr(base)
        if g is True:
            st.val = z3.Store(st.val, *base, v)
        else:
            st.val = z3.Store(st.val, *base, z3.If(g, v, z3.Select(st.val, *base)))
        if st.dfn is True and d is True:
            return
        if isinstance(st.dfn, bool):
            st.dfn = z3.K(z3.IntSort(), z3.BoolVal(st.dfn)) if (st.rank == 1 or st.flat is not None) else self._constarr(st.rank, st.dfn)
        if g is True:
            st.dfn = z3.Store(st.dfn, *base, _b(d))
        else:
            st.dfn = z3.Store(st.dfn, *base, z3.If(g, _b(d), z3.Select(st.dfn, *base)))

    def _constarr(self, rank, b):
        # multi-index constant array: use a lambda
        xs = [z3.Int(f"__k{k}") for k in range(rank)]
        return z3.Lambda(xs, z3.BoolVal(b))

    def obl(self, kind, g, phi, where):
        f = _Implies(g, phi)
        if f is True:
            return
        f = z3.simplify(f)
        if z3.is_true(f):
            return
        self.obls.append(Obl(kind, f, where))

    # ---- windows ---------------------------------------------------------
    def window(self, e, env, g):
        ref: Ref = env[e.name]
        if len(e.idx) != ref.rank():
            raise Unsupported("window rank mismatch")
        new = []
        it = iter(e.idx)
        k = 0
        for d in ref.dims:
            if d[0] == "pt":
                new.append(d)
                continue
            w = next(it)
            off, ext = d[1], d[2]
            if isinstance(w, LoopIR.Point):
                p = self.ctrl(w.pt, env)
                self.obl("window_overhang", g, z3.And(p >= 0, p < ext), f"window {e.name} pt dim {k}")
                new.append(("pt", off + p))
            else:
                lo = self.ctrl(w.lo, env)
                hi = self.ctrl(w.hi, env)
                self.obl("window_overhang", g, z3.And(lo >= 0, lo <= hi, hi <= ext), f"window {e.name} iv dim {k}")
                new.append(("iv", z3.simplify(off + lo), z3.simplify(hi - lo)))
            k += 1
        return Ref(ref.store, new)

    # ---- statements ------------------------------------------------------
    def block(self, stmts, env, g):
        env = Env(env)
        for s in stmts:
            self.stmt(s, env, g)

    def _tick(self):
        self.nstmts += 1
        if self.nstmts > self.bounds.stmt_budget:
            raise TooBig(f"more than {self.bounds.stmt_budget} unrolled statements")

    def stmt(self, s, env, g):
        self._tick()
        self.cur_guard = g
        if isinstance(s, (LoopIR.Assign, LoopIR.Reduce)):
            ref = env[s.name]
            idx = [self.ctrl(i, env) for i in s.idx]
            v, d = self.data(s.rhs, env, g)
            where = f"{'assign' if isinstance(s, LoopIR.Assign) else 'reduce'} {s.name} @{s.srcinfo}"
            if isinstance(s, LoopIR.Reduce):
                old, od = self.load_noobl(ref, idx)
                v = old + v
                d = _And(od, d)
                self.store_(ref, idx, g, v, d, where, "red")
            else:
                self.store_(ref, idx, g, v, d, where, "w")
        elif isinstance(s, LoopIR.WriteConfig):
            key = (s.config.name(), s.field)
            t = s.config.lookup_type(s.field)
            if is_ctrl_type(t):
                v = self.ctrl(s.rhs, env)
            else:
                v, _d = self.data(s.rhs, env, g)
            old = self.read_cfg(s.config, s.field)
            self.cfg[key] = _If(g, v, old)
            self.cfg_written.add(key)
            if self.log_access:
                self.log.pop()  # the read above is not a program read
                self.log.append(Access("w", ("cfg",) + key, [], g, self.par_ctx, f"write config {key[0]}.{s.field}"))
        elif isinstance(s, LoopIR.Pass):
            pass
        elif isinstance(s, LoopIR.If):
            c = z3.simplify(self.ctrl(s.cond, env))
            if z3.is_true(c):
                self.block(s.body, env, g)
            elif z3.is_false(c):
                self.block(s.orelse, env, g)
            else:
                self.block(s.body, env, _And(g, c))
                if s.orelse:
                    self.block(s.orelse, env, _And(g, z3.Not(c)))
        elif isinstance(s, LoopIR.For):
            self.loop(s, env, g)
        elif isinstance(s, LoopIR.Alloc):
            t = s.type
            shape_e = t.shape() if t.is_tensor_or_window() else []
            shape = [z3.simplify(self.ctrl(e, env)) for e in shape_e]
            for k, e in enumerate(shape):
                self.obl("alloc_extent", g, e >= 1, f"alloc {s.name} dim {k}")
            n = next(self._alloc_ctr)
            nm = f"{self.run_tag}al{n}_{s.name.name()}"
            rank = len(shape)
            if rank == 0:
                val = z3.Real(nm)
            else:
                val = z3.Array(nm, *([z3.IntSort()] * rank), z3.RealSort())
            env[s.name] = full_ref(Store(nm, shape, val, False, None, "alloc"))
        elif isinstance(s, LoopIR.Free):
            pass
        elif isinstance(s, LoopIR.WindowStmt):
            env[s.name] = self.window(s.rhs, env, g)
        elif isinstance(s, LoopIR.Call):
            self.call(s, env, g)
        else:
            raise Unsupported(f"stmt {type(s).__name__}")

    def load_noobl(self, ref, idx):
        base = ref.base_index(idx)
        st = ref.store
        if st.rank == 0 and st.flat is None:
            return st.val, st.dfn
        base = st.addr(base)
        v = z3.Select(st.val, *base)
        d = st.dfn if isinstance(st.dfn, bool) else z3.Select(st.dfn, *base)
        return v, d

    def max_trip(self, g, trip):
        """max of `trip` under solver assumptions and guard g (>=0)"""
        t = z3.simplify(trip)
        if z3.is_int_value(t):
            return max(0, t.as_long())
        if self.solver is None:
            raise Unsupported("symbolic trip count without solver")
        U = 0
        s = self.solver
        s.push()
        if g is not True:
            s.add(g)
        try:
            while True:
                self.solver_calls += 1
                s.push()
                s.add(t > U)
                r = s.check()
                if r == z3.sat:
                    U = s.model().eval(t, model_completion=True).as_long()
                    s.pop()
                    if U > self.bounds.unroll_cap:
                        raise TooBig(f"loop trip count can reach {U} > cap {self.bounds.unroll_cap}")
                elif r == z3.unsat:
                    s.pop()
                    return U
                else:
                    s.pop()
                    raise Unsupported("unknown while bounding a loop")
        finally:
            s.pop()

    def loop(self, s, env, g):
        lo = z3.simplify(self.ctrl(s.lo, env))
        hi = z3.simplify(self.ctrl(s.hi, env))
        where = f"for {s.iter} @{s.srcinfo}"
        self.obl("loop_range", g, lo <= hi, where)
        if self.bounds.unbounded:
            # one ARBITRARY iteration from an arbitrary loop state: the iterator is a fresh integer in [lo, hi),
            # every configuration field the body may write (directly or in a callee) is havoc'd before the body
            # and again after the loop.  Data never influences control, so this over-approximates every
            # reachable control state: unsat => the obligation holds for loops of ANY length.
            uid = next(self._loop_uid)
            it = z3.Int(f"{self.run_tag}it{uid}_{s.iter.name()}")
            gk = _And(g, lo <= it, it < hi)
            keys = cfg_writes_in(s.body)
            self._havoc_cfg(keys, uid, "a")
            e2 = Env(env)
            e2[s.iter] = it
            self.nloops += 1
            saved = self.par_ctx
            if isinstance(s.loop_mode, LoopIR.Par):
                self.par_ctx = saved + ((uid, 0, str(s.iter)),)
            self.block(s.body, e2, gk)
            self.par_ctx = saved
            self._havoc_cfg(keys, uid, "b")
            return
        U = self.max_trip(g, hi - lo)
        self.nloops += 1
        self.max_unroll = max(self.max_unroll, U)
        is_par = isinstance(s.loop_mode, LoopIR.Par)
        uid = next(self._loop_uid)
        saved = self.par_ctx
        for k in range(U):
            it = z3.simplify(lo + k)
            gk = _And(g, z3.simplify(it < hi))
            if gk is False:
                continue
            e2 = Env(env)
            e2[s.iter] = it
            if is_par:
                self.par_ctx = saved + ((uid, k, str(s.iter)),)
            self.block(s.body, e2, gk)
        self.par_ctx = saved
        # unwinding obligation: discharged by construction of U (max under the
        # assumptions); recorded so that a too-small cap is never silent
        self.obl("unwind", g, hi - lo <= U, where)

    def _havoc_cfg(self, keys, uid, tag):
        for cfgobj, fld in keys:
            key = (cfgobj.name(), fld)
            t = cfgobj.lookup_type(fld)
            nm = f"{self.run_tag}hv{uid}{tag}_{key[0]}_{fld}"
            if isinstance(t, T.Bool):
                v = z3.Bool(nm)
            elif is_ctrl_type(t):
                v = z3.Int(nm)
            else:
                v = z3.Real(nm)
            self.cfg[key] = v
            self.cfg_written.add(key)

    def call(self, s, env, g):
        f = s.f
        self.call_depth += 1
        if self.call_depth > 8:
            raise Unsupported("call depth > 8")
        cenv: Dict[Any, Any] = Env()
        where = f"call {f.name} @{s.srcinfo}"
        # control formals first
        for fa, a in zip(f.args, s.args):
            if is_ctrl_type(fa.type):
                v = self.ctrl(a, env)
                cenv[fa.name] = v
                if isinstance(fa.type, T.Size):
                    self.obl("call_size", g, v >= 1, f"{where} arg {fa.name}")
        refs = []
        for fa, a in zip(f.args, s.args):
            if is_ctrl_type(fa.type):
                continue
            if isinstance(a, LoopIR.WindowExpr):
                r = self.window(a, env, g)
            elif isinstance(a, LoopIR.Read):
                r = env[a.name]
                if not isinstance(r, Ref):
                    raise Unsupported("control value passed as data arg")
                if a.idx:
                    idx = [self.ctrl(i, env) for i in a.idx]
                    base = self._check_access(r, idx, g, where)
                    r = Ref(r.store, [("pt", b) for b in base])
            else:
                raise Unsupported(f"call arg {type(a).__name__}")
            ft = fa.type
            fshape = ft.shape() if ft.is_tensor_or_window() else []
            if len(fshape) != r.rank():
                self.obl("call_shape", g, z3.BoolVal(False), f"{where} arg {fa.name} rank")
                raise Unsupported("call rank mismatch")
            for k, (fe, ae) in enumerate(zip(fshape, r.extents())):
                self.obl("call_shape", g, self.ctrl(fe, cenv) == ae, f"{where} arg {fa.name} dim {k}")
            cenv[fa.name] = r
            refs.append((fa, r))
        # aliasing: two buffer actuals must not overlap
        for (fa1, r1), (fa2, r2) in itertools.combinations(refs, 2):
            if r1.store is r2.store:
                ov = []
                for d1, d2 in zip(r1.dims, r2.dims):
                    lo1, hi1 = (d1[1], d1[1] + 1) if d1[0] == "pt" else (d1[1], d1[1] + d1[2])
                    lo2, hi2 = (d2[1], d2[1] + 1) if d2[0] == "pt" else (d2[1], d2[1] + d2[2])
                    ov.append(z3.And(lo1 < hi2, lo2 < hi1))
                overlap = z3.And(*ov) if ov else z3.BoolVal(True)
                self.obl("alias", g, z3.Not(overlap), f"{where} args {fa1.name},{fa2.name}")
        for p in f.preds:
            self.obl("call_pred", g, self.ctrl(p, cenv), f"{where} pred {p}")
        self.block(f.body, cenv, g)
        self.call_depth -= 1

    # ---- entry -----------------------------------------------------------
    def run(self, proc, argvals, run_tag=""):
        self.run_tag = run_tag
        env: Dict[Any, Any] = Env()
        for a, v in zip(proc.args, argvals):
            env[a.name] = v
        self.block(proc.body, env, True)
        return env

    def preds(self, proc, argvals):
        env = {a.name: v for a, v in zip(proc.args, argvals)}
        return [self.ctrl(p, env) for p in proc.preds]


# ---------------------------------------------------------------------------
# running one procedure and comparing two


@dataclass
class RunResult:
    proc: Any
    stores: List[Optional[Store]]  # per arg position
    cfg: Dict[Tuple[str, str], Any]
    cfg_written: set
    obls: List[Obl]
    log: List[Access]
    nstmts: int
    nloops: int
    max_unroll: int
    solver_calls: int


def run_proc(proc, inputs: Inputs, solver, run_tag="", log_access=False, argvals=None) -> RunResult:
    ex = SymExec(inputs, solver, log_access=log_access)
    if argvals is None:
        argvals = inputs.instantiate(proc)
    ex.run(proc, argvals, run_tag)
    stores = [v.store if isinstance(v, Ref) else None for v in argvals]
    return RunResult(proc, stores, ex.cfg, ex.cfg_written, ex.obls, ex.log, ex.nstmts, ex.nloops, ex.max_unroll, ex.solver_calls)


def make_solver(inputs: Inputs, proc=None, timeout_ms=60000):
    s = z3.Solver()
    s.set("timeout", timeout_ms)
    pre = []
    if proc is not None:
        ex = SymExec(inputs, None)
        pre = ex.preds(proc, [c if c is not None else full_ref(st) for c, st in zip(inputs.ctrl, inputs.stores)])
    # assumptions list may grow lazily (config vars); callers re-add via sync
    s.add(*inputs.assumptions)
    s.add(*pre)
    s._n_assump = len(inputs.assumptions)  # type: ignore
    return s, pre


def sync_assumptions(solver, inputs: Inputs):
    n = getattr(solver, "_n_assump", 0)
    if len(inputs.assumptions) > n:
        solver.add(*inputs.assumptions[n:])
        solver._n_assump = len(inputs.assumptions)  # type: ignore


def diff_formulas(inputs: Inputs, r1: RunResult, r2: RunResult, ignore_cfg=(), pos_map=None, idx_map=None):
    """list of (label, formula, witness-terms) such that formula SAT == results differ.

    pos_map: position in r1 -> position in r2 (default identity)
    idx_map: position -> function mapping r1 index list to r2 index list
    """
    out = []
    for pos, st1 in enumerate(r1.stores):
        if st1 is None:
            continue
        p2 = pos if pos_map is None else pos_map.get(pos)
        if p2 is None:
            continue
        st2 = r2.stores[p2]
        if st2 is None:
            out.append((f"arg{pos}", z3.BoolVal(True), []))
            continue
        if st1.rank == 0:
            d1, d2 = _b(st1.dfn), _b(st2.dfn)
            f = z3.And(d1, z3.Or(z3.Not(d2), st1.val != st2.val))
            out.append((f"arg{pos}:{st1.name}", f, []))
            continue
        js = [z3.Int(f"__j{pos}_{k}") for k in range(st1.rank)]
        rng = [z3.And(j >= 0, j < e) for j, e in zip(js, st1.shape)]
        js2 = js if idx_map is None or pos not in idx_map else idx_map[pos](js)
        v1 = z3.Select(st1.val, *js)
        v2 = z3.Select(st2.val, *js2)
        d1 = _b(st1.dfn) if isinstance(st1.dfn, bool) else z3.Select(st1.dfn, *js)
        d2 = _b(st2.dfn) if isinstance(st2.dfn, bool) else z3.Select(st2.dfn, *js2)
        f = z3.And(*rng, d1, z3.Or(z3.Not(d2), v1 != v2))
        out.append((f"arg{pos}:{st1.name}", f, js))
    keys = set(r1.cfg) | set(r2.cfg)
    for key in sorted(keys):
        if key in ignore_cfg:
            continue
        c1 = r1.cfg.get(key)
        c2 = r2.cfg.get(key)
        if c1 is None:
            c1 = inputs.cfg0[key]
        if c2 is None:
            c2 = inputs.cfg0[key]
        if c1 is c2:
            continue
        out.append((f"cfg:{key[0]}.{key[1]}", c1 != c2, []))
    return out


# ---------------------------------------------------------------------------
# model -> concrete inputs


def _num(v):
    if z3.is_int_value(v):
        return v.as_long()
    if z3.is_rational_value(v):
        return Fraction(v.numerator_as_long(), v.denominator_as_long())
    if z3.is_algebraic_value(v):
        a = v.approx(20)
        return Fraction(a.numerator_as_long(), a.denominator_as_long())
    if z3.is_true(v):
        return True
    if z3.is_false(v):
        return False
    raise ValueError(f"cannot concretise {v}")


def concretize(inputs: Inputs, model, size_cap=8):
    """-> dict usable by ConcExec: args (per position), cfg, uf callback"""
    args = []
    ctrlvals = []
    for pos, a in enumerate(inputs.proc.args):
        if inputs.ctrl[pos] is not None:
            v = _num(model.eval(inputs.ctrl[pos], model_completion=True))
            args.append(v)
            ctrlvals.append(v)
        else:
            st = inputs.stores[pos]
            shape = [_num(model.eval(e, model_completion=True)) for e in st.shape]
            data = {}
            if st.rank == 0:
                data[()] = _num(model.eval(st.val, model_completion=True))
            else:
                for idx in itertools.product(*[range(max(0, min(s, size_cap))) for s in shape]):
                    data[idx] = _num(model.eval(z3.Select(st.val, *[z3.IntVal(i) for i in idx]), model_completion=True))
            strides = None
            if st.strides is not None:
                strides = [_num(model.eval(s, model_completion=True)) for s in st.strides]
            args.append({"shape": shape, "data": data, "strides": strides})
    cfg = {k: _num(model.eval(v, model_completion=True)) for k, v in inputs.cfg0.items()}

    def uf_eval(name, xs):
        f = uf(name, len(xs))
        r = model.eval(f(*[z3.RealVal(x) for x in xs]), model_completion=True)
        return Fraction(_num(r))

    return {"args": args, "cfg": cfg, "uf": uf_eval}


# ---------------------------------------------------------------------------
# concrete interpreter (solver-free; replay + encoder validation)


class ConcViolation(Exception):
    def __init__(self, kind, where):
        super().__init__(f"{kind}: {where}")
        self.kind = kind
        self.where = where


class CStore:
    _ctr = itertools.count()

    def __init__(self, name, shape, data=None, strides=None, defined=False):
        self.uid = next(CStore._ctr)
        self.name = name
        self.shape = list(shape)
        self.data: Dict[tuple, Any] = dict(data or {})
        self.strides = strides
        self.defined_default = defined  # arg buffers: missing cells are defined-unknown (0)

    def get(self, idx):
        idx = tuple(idx)
        if idx in self.data:
            return self.data[idx]
        return Fraction(0) if self.defined_default else None


@dataclass
class CRef:
    store: CStore
    dims: List[tuple]

    def rank(self):
        return sum(1 for d in self.dims if d[0] == "iv")

    def extents(self):
        return [d[2] for d in self.dims if d[0] == "iv"]

    def base_index(self, idx):
        out = []
        it = iter(idx)
        for d in self.dims:
            out.append(d[1] if d[0] == "pt" else d[1] + next(it))
        return out


def cfull(st: CStore):
    return CRef(st, [("iv", 0, e) for e in st.shape])


class ConcExec:
    """Plain-Python LoopIR interpreter.  Data: Fraction or None (undefined)."""

    def __init__(self, cfg=None, uf_eval=None, strict=True, max_steps=200000, check_view=True, c_mod=False):
        self.c_mod = c_mod  # evaluate % as C's truncating remainder (used only to recognise one known defect)
        self.cfg = dict(cfg or {})
        self.uf_eval = uf_eval
        self.strict = strict
        self.steps = 0
        self.max_steps = max_steps
        self.violations: List[Tuple[str, str]] = []
        self.notes: List[Tuple[str, str]] = []  # informational (window intervals overhanging their base: not an access)
        self.check_view = check_view
        self.accesses = None  # optional log for race replay: (kind, store-key, idx, par ctx, where)
        self.par_ctx = ()
        self._par_uid = 0

    def viol(self, kind, where):
        self.violations.append((kind, where))
        if self.strict:
            raise ConcViolation(kind, where)

    def ctrl(self, e, env):
        if isinstance(e, LoopIR.Const):
            return e.val
        if isinstance(e, LoopIR.Read):
            return env[e.name]
        if isinstance(e, LoopIR.USub):
            return -self.ctrl(e.arg, env)
        if isinstance(e, LoopIR.BinOp):
            a = self.ctrl(e.lhs, env)
            op = e.op
            if op == "and":
                return bool(a) and bool(self.ctrl(e.rhs, env))
            if op == "or":
                return bool(a) or bool(self.ctrl(e.rhs, env))
            b = self.ctrl(e.rhs, env)
            if op == "+":
                return a + b
            if op == "-":
                return a - b
            if op == "*":
                return a * b
            if op == "/":
                if b <= 0:
                    self.viol("div_nonpos", str(e))
                    return 0
                return a // b
            if op == "%":
                if b <= 0:
                    self.viol("div_nonpos", str(e))
                    return 0
                if self.c_mod:
                    return a - b * int(a / b) if a >= 0 else -((-a) % b)
                return a % b
            if op == "<":
                return a < b
            if op == ">":
                return a > b
            if op == "<=":
                return a <= b
            if op == ">=":
                return a >= b
            if op == "==":
                return a == b
            raise Unsupported(op)
        if isinstance(e, LoopIR.ReadConfig):
            if self.accesses is not None:
                self.accesses.append(("r", ("cfg", e.config.name(), e.field), (), self.par_ctx, f"read config {e.config.name()}.{e.field}"))
            return self.cfg.get((e.config.name(), e.field), 0)
        if isinstance(e, LoopIR.StrideExpr):
            ref = env[e.name]
            st = ref.store
            bdim = [k for k, d in enumerate(ref.dims) if d[0] == "iv"][e.dim]
            if st.strides is not None:
                return st.strides[bdim]
            s = 1
            for k in range(len(st.shape) - 1, bdim, -1):
                s *= st.shape[k]
            return s
        raise Unsupported(type(e).__name__)

    def data(self, e, env):
        if isinstance(e, LoopIR.Const):
            return simple_rational(e.val) if isinstance(e.val, float) else Fraction(e.val)
        if isinstance(e, LoopIR.Read):
            v = env[e.name]
            if not isinstance(v, CRef):
                return Fraction(v)
            idx = [self.ctrl(i, env) for i in e.idx]
            base = self.check(v, idx, f"read {e.name}")
            if base is None:
                return None
            if self.accesses is not None:
                self.accesses.append(("r", v.store.uid, base, self.par_ctx, f"read {e.name}"))
            return v.store.get(base)
        if isinstance(e, LoopIR.USub):
            a = self.data(e.arg, env)
            return None if a is None else -a
        if isinstance(e, LoopIR.BinOp):
            a = self.data(e.lhs, env)
            b = self.data(e.rhs, env)
            if a is None or b is None:
                return None
            if e.op == "+":
                return a + b
            if e.op == "-":
                return a - b
            if e.op == "*":
                return a * b
            if e.op == "/":
                if b == 0:
                    return Fraction(0)  # z3 total division is unspecified; flagged by caller
                return a / b
            raise Unsupported(e.op)
        if isinstance(e, LoopIR.Extern):
            xs = [self.data(a, env) for a in e.args]
            if any(x is None for x in xs):
                return None
            nm = e.f.name()
            if nm == "relu":
                return xs[0] if xs[0] > 0 else Fraction(0)
            if nm == "select":
                return xs[2] if xs[0] < xs[1] else xs[3]
            if nm == "fmaxf":
                return xs[0] if xs[0] >= xs[1] else xs[1]
            if nm == "sigmoid":
                return 1 / (1 + self._uf("exp", [-xs[0]]))
            return self._uf(nm, xs)
        if isinstance(e, LoopIR.ReadConfig):
            if self.accesses is not None:
                self.accesses.append(("r", ("cfg", e.config.name(), e.field), (), self.par_ctx, f"read config {e.config.name()}.{e.field}"))
            v = self.cfg.get((e.config.name(), e.field), 0)
            return Fraction(v)
        raise Unsupported(type(e).__name__)

    def _uf(self, name, xs):
        if self.uf_eval is not None:
            return self.uf_eval(name, xs)
        # fixed arbitrary total function
        r = Fraction(7, 3)
        for x in xs:
            r = r * Fraction(5, 11) + x * x * Fraction(3, 7) + x + 1
        return r

    def check(self, ref: CRef, idx, where):
        if len(idx) != ref.rank():
            raise Unsupported("rank mismatch")
        if self.check_view:
            for k, (i, ext) in enumerate(zip(idx, ref.extents())):
                if not (0 <= i < ext):
                    self.viol("view_extent", f"{where} dim {k}: {i} not in [0,{ext})")
        base = ref.base_index(idx)
        for k, (i, ext) in enumerate(zip(base, ref.store.shape)):
            if not (0 <= i < ext):
                self.viol("bounds", f"{where} base dim {k}: {i} not in [0,{ext})")
                return None
        return tuple(base)

    def window(self, e, env):
        ref: CRef = env[e.name]
        new = []
        it = iter(e.idx)
        for d in ref.dims:
            if d[0] == "pt":
                new.append(d)
                continue
            w = next(it)
            off, ext = d[1], d[2]
            if isinstance(w, LoopIR.Point):
                p = self.ctrl(w.pt, env)
                if not (0 <= p < ext):
                    self.notes.append(("window_overhang", f"window {e.name} point {p} not in [0,{ext})"))
                new.append(("pt", off + p))
            else:
                lo = self.ctrl(w.lo, env)
                hi = self.ctrl(w.hi, env)
                if not (0 <= lo <= hi <= ext):
                    self.notes.append(("window_overhang", f"window {e.name} [{lo}:{hi}] not inside [0,{ext}]"))
                new.append(("iv", off + lo, hi - lo))
        return CRef(ref.store, new)

    def block(self, stmts, env):
        env = Env(env)
        for s in stmts:
            self.stmt(s, env)

    def stmt(self, s, env):
        self.steps += 1
        if self.steps > self.max_steps:
            raise TooBig("concrete step budget")
        if isinstance(s, (LoopIR.Assign, LoopIR.Reduce)):
            ref = env[s.name]
            idx = [self.ctrl(i, env) for i in s.idx]
            v = self.data(s.rhs, env)
            base = self.check(ref, idx, f"{'assign' if isinstance(s, LoopIR.Assign) else 'reduce'} {s.name}")
            if base is None:
                return
            if isinstance(s, LoopIR.Reduce):
                old = ref.store.get(base)
                v = None if (old is None or v is None) else old + v
            ref.store.data[base] = v
            if self.accesses is not None:
                self.accesses.append(("w" if isinstance(s, LoopIR.Assign) else "red", ref.store.uid, base, self.par_ctx, f"write {s.name}"))
        elif isinstance(s, LoopIR.WriteConfig):
            t = s.config.lookup_type(s.field)
            v = self.ctrl(s.rhs, env) if is_ctrl_type(t) else self.data(s.rhs, env)
            self.cfg[(s.config.name(), s.field)] = v
            if self.accesses is not None:
                self.accesses.append(("w", ("cfg", s.config.name(), s.field), (), self.par_ctx, f"write config {s.config.name()}.{s.field}"))
        elif isinstance(s, LoopIR.Pass):
            pass
        elif isinstance(s, LoopIR.If):
            if self.ctrl(s.cond, env):
                self.block(s.body, env)
            else:
                self.block(s.orelse, env)
        elif isinstance(s, LoopIR.For):
            lo = self.ctrl(s.lo, env)
            hi = self.ctrl(s.hi, env)
            if lo > hi:
                self.viol("loop_range", f"for {s.iter}: lo {lo} > hi {hi}")
            is_par = isinstance(s.loop_mode, LoopIR.Par)
            saved = self.par_ctx
            if is_par:
                self._par_uid += 1
                uid = self._par_uid
            for i in range(lo, hi):
                e2 = Env(env)
                e2[s.iter] = i
                if is_par:
                    self.par_ctx = saved + ((uid, i, str(s.iter)),)
                self.block(s.body, e2)
            self.par_ctx = saved
        elif isinstance(s, LoopIR.Alloc):
            t = s.type
            shape = [self.ctrl(e, env) for e in (t.shape() if t.is_tensor_or_window() else [])]
            for k, e in enumerate(shape):
                if e < 1:
                    # informational: the property (C03/C04) speaks of accesses, calls and loops, not of empty allocations
                    self.notes.append(("alloc_extent", f"alloc {s.name} dim {k} = {e}"))
            env[s.name] = cfull(CStore(str(s.name), shape))
        elif isinstance(s, LoopIR.Free):
            pass
        elif isinstance(s, LoopIR.WindowStmt):
            env[s.name] = self.window(s.rhs, env)
        elif isinstance(s, LoopIR.Call):
            self.call(s, env)
        else:
            raise Unsupported(type(s).__name__)

    def call(self, s, env):
        f = s.f
        cenv = Env()
        where = f"call {f.name}"
        for fa, a in zip(f.args, s.args):
            if is_ctrl_type(fa.type):
                v = self.ctrl(a, env)
                cenv[fa.name] = v
                if isinstance(fa.type, T.Size) and v < 1:
                    self.viol("call_size", f"{where} arg {fa.name} = {v}")
        refs = []
        for fa, a in zip(f.args, s.args):
            if is_ctrl_type(fa.type):
                continue
            if isinstance(a, LoopIR.WindowExpr):
                r = self.window(a, env)
            else:
                r = env[a.name]
                if a.idx:
                    idx = [self.ctrl(i, env) for i in a.idx]
                    base = self.check(r, idx, where)
                    r = CRef(r.store, [("pt", b) for b in base])
            ft = fa.type
            fshape = ft.shape() if ft.is_tensor_or_window() else []
            if len(fshape) != r.rank():
                self.viol("call_shape", f"{where} arg {fa.name} rank")
            for k, (fe, ae) in enumerate(zip(fshape, r.extents())):
                fv = self.ctrl(fe, cenv)
                if fv != ae:
                    self.viol("call_shape", f"{where} arg {fa.name} dim {k}: {fv} != {ae}")
            cenv[fa.name] = r
            refs.append((fa, r))
        for (fa1, r1), (fa2, r2) in itertools.combinations(refs, 2):
            if r1.store is r2.store:
                ov = True
                for d1, d2 in zip(r1.dims, r2.dims):
                    lo1, hi1 = (d1[1], d1[1] + 1) if d1[0] == "pt" else (d1[1], d1[1] + d1[2])
                    lo2, hi2 = (d2[1], d2[1] + 1) if d2[0] == "pt" else (d2[1], d2[1] + d2[2])
                    ov = ov and (lo1 < hi2 and lo2 < hi1)
                if ov:
                    self.viol("alias", f"{where} args {fa1.name},{fa2.name}")
        for p in f.preds:
            if not self.ctrl(p, cenv):
                self.viol("call_pred", f"{where} pred {p}")
        self.block(f.body, cenv)

    def run(self, proc, conc_args):
        """conc_args: per position int/bool or {'shape','data','strides'}; returns list of CStore/None"""
        env = Env()
        stores = []
        for a, v in zip(proc.args, conc_args):
            if isinstance(v, dict):
                st = CStore(str(a.name), v["shape"], v["data"], v.get("strides"), defined=True)
                env[a.name] = cfull(st)
                stores.append(st)
            else:
                env[a.name] = v
                stores.append(None)
        for p in proc.preds:
            if not self.ctrl(p, env):
                raise ConcViolation("precondition", str(p))
        self.block(proc.body, env)
        return stores


def copy_conc_args(args):
    out = []
    for a in args:
        if isinstance(a, dict):
            out.append({"shape": list(a["shape"]), "data": dict(a["data"]), "strides": a.get("strides")})
        else:
            out.append(a)
    return out
