"""Source-level mutation of corpus procedures (C03's mutation layer, also used by
C09): each mutant differs from a seed by one small edit and is given to the real
front end; only what the front end ACCEPTS is then model-checked."""
from __future__ import annotations

import ast
import copy
import importlib.util
import os
import sys
from pathlib import Path

from .common import WORK

SEEDS_PATH = Path(__file__).resolve().parent.parent / "corpus" / "seeds.py"


def seed_functions():
    """-> {name: (FunctionDef node, decorator kind 'proc'|'instr', instr args source)}"""
    src = SEEDS_PATH.read_text()
    tree = ast.parse(src)
    out = {}
    for node in tree.body:
        if isinstance(node, ast.FunctionDef):
            kind = None
            instr_src = None
            for d in node.decorator_list:
                if isinstance(d, ast.Name) and d.id == "proc":
                    kind = "proc"
                if isinstance(d, ast.Call) and isinstance(d.func, ast.Name) and d.func.id == "instr":
                    kind = "instr"
                    instr_src = ast.unparse(d)
            if kind:
                out[node.name] = (node, kind, instr_src)
    return out


class _Sites(ast.NodeVisitor):
    """collect mutation sites: (kind, path-id)"""

    def __init__(self):
        self.sites = []
        self.in_annotation = False

    def visit_FunctionDef(self, node):
        for st in node.body:
            self.visit(st)

    def visit_AnnAssign(self, node):
        # alloc: name: type[shape]
        ann = node.annotation
        if isinstance(ann, ast.BinOp):  # f32[...] @ MEM
            ann = ann.left
        if isinstance(ann, ast.Subscript):
            self.sites.append(("alloc_minus", id(ann)))

    def visit_Subscript(self, node):
        sl = node.slice
        elts = sl.elts if isinstance(sl, ast.Tuple) else [sl]
        for k, e in enumerate(elts):
            if isinstance(e, ast.Slice):
                self.sites.append(("slice_hi_plus", (id(node), k)))
                self.sites.append(("slice_lo_minus", (id(node), k)))
                self.sites.append(("slice_shift", (id(node), k)))
            else:
                self.sites.append(("idx_plus", (id(node), k)))
                self.sites.append(("idx_minus", (id(node), k)))
        self.generic_visit(node)

    def visit_Call(self, node):
        if isinstance(node.func, ast.Name) and node.func.id in ("seq", "par") and len(node.args) == 2:
            self.sites.append(("hi_plus", id(node)))
            self.sites.append(("lo_minus", id(node)))
            self.sites.append(("hi_minus", id(node)))
        elif isinstance(node.func, ast.Name) and len(node.args) >= 2:
            self.sites.append(("swap_args", id(node)))
            self.sites.append(("size_arg_plus", id(node)))
        self.generic_visit(node)

    def visit_Compare(self, node):
        self.sites.append(("cmp_flip", id(node)))
        self.generic_visit(node)

    def visit_Assert(self, node):
        self.sites.append(("drop_assert", id(node)))
        self.sites.append(("weaken_assert", id(node)))

    def visit_For(self, node):
        self.visit(node.iter)
        for st in node.body:
            self.visit(st)


def _plus(e, c):
    return ast.BinOp(left=e, op=ast.Add() if c > 0 else ast.Sub(), right=ast.Constant(abs(c)))


class _Apply(ast.NodeTransformer):
    def __init__(self, kind, key, idmap):
        self.kind = kind
        self.key = key
        self.idmap = idmap  # id(original node) -> copied node id

    def _is(self, node, key=None):
        return self.idmap.get(id(node)) == (self.key if key is None else key)

    def visit_AnnAssign(self, node):
        ann = node.annotation
        holder = None
        if isinstance(ann, ast.BinOp):
            holder, ann = ann, ann.left
        if self.kind == "alloc_minus" and isinstance(ann, ast.Subscript) and self._is(ann):
            sl = ann.slice
            if isinstance(sl, ast.Tuple):
                sl.elts[0] = _plus(sl.elts[0], -1)
            else:
                ann.slice = _plus(sl, -1)
        return node

    def visit_Subscript(self, node):
        self.generic_visit(node)
        if self.kind in ("idx_plus", "idx_minus", "slice_hi_plus", "slice_lo_minus", "slice_shift") and isinstance(self.key, tuple) and self.idmap.get(id(node)) == self.key[0]:
            k = self.key[1]
            sl = node.slice
            elts = sl.elts if isinstance(sl, ast.Tuple) else [sl]
            e = elts[k]
            if self.kind == "idx_plus":
                ne = _plus(e, 1)
            elif self.kind == "idx_minus":
                ne = _plus(e, -1)
            elif self.kind == "slice_hi_plus":
                ne = ast.Slice(lower=e.lower, upper=_plus(e.upper, 1) if e.upper is not None else None)
            elif self.kind == "slice_lo_minus":
                ne = ast.Slice(lower=_plus(e.lower, -1) if e.lower is not None else None, upper=e.upper)
            else:
                ne = ast.Slice(lower=_plus(e.lower, 1) if e.lower is not None else None, upper=_plus(e.upper, 1) if e.upper is not None else None)
            if isinstance(sl, ast.Tuple):
                sl.elts[k] = ne
            else:
                node.slice = ne
        return node

    def visit_Call(self, node):
        self.generic_visit(node)
        if self._is(node):
            if self.kind == "hi_plus":
                node.args[1] = _plus(node.args[1], 1)
            elif self.kind == "hi_minus":
                node.args[1] = _plus(node.args[1], -1)
            elif self.kind == "lo_minus":
                node.args[0] = _plus(node.args[0], -1)
            elif self.kind == "swap_args":
                # swap the last two positional arguments
                node.args[-1], node.args[-2] = node.args[-2], node.args[-1]
            elif self.kind == "size_arg_plus":
                node.args[0] = _plus(node.args[0], 1)
        return node

    def visit_Compare(self, node):
        self.generic_visit(node)
        if self.kind == "cmp_flip" and self._is(node):
            flip = {ast.Lt: ast.LtE, ast.LtE: ast.Lt, ast.Gt: ast.GtE, ast.GtE: ast.Gt, ast.Eq: ast.LtE}
            node.ops = [flip.get(type(o), type(o))() for o in node.ops]
        return node

    def visit_Assert(self, node):
        if self._is(node):
            if self.kind == "drop_assert":
                return ast.Pass()
            if self.kind == "weaken_assert" and isinstance(node.test, ast.Compare):
                flip = {ast.Lt: ast.LtE, ast.Gt: ast.GtE, ast.GtE: ast.Gt, ast.LtE: ast.Lt, ast.Eq: ast.GtE}
                node.test.ops = [flip.get(type(o), type(o))() for o in node.test.ops]
        return node


def mutants_of(name, fn_node, kind, instr_src, limit=None, rng=None):
    """-> list of (mutant name, description, source text)"""
    sv = _Sites()
    sv.visit(fn_node)
    sites = sv.sites
    if rng is not None:
        rng.shuffle(sites)
    if limit:
        sites = sites[:limit]
    out = []
    for n, (k, key) in enumerate(sites):
        # deep copy with id map
        cp = copy.deepcopy(fn_node)
        idmap = {}
        for a, b in zip(ast.walk(fn_node), ast.walk(cp)):
            idmap[id(b)] = id(a)
        tr = _Apply(k, key, idmap)
        cp = tr.visit(cp)
        ast.fix_missing_locations(cp)
        mname = f"{name}__m{n}"
        cp.name = mname
        cp.decorator_list = []
        try:
            src = ast.unparse(cp)
        except Exception:
            continue
        if src == ast.unparse(fn_node).replace(f"def {name}(", f"def {mname}(", 1):
            continue
        deco = "@proc" if kind == "proc" else "@" + instr_src
        out.append((mname, f"{k}", deco + "\n" + src + "\n"))
    return out


MODULE_HEADER = '''from __future__ import annotations
from exo import proc, instr, config, DRAM
from exo.libs.memories import DRAM_STACK, DRAM_STATIC
from exo.libs.externs import sin, relu, select, fmaxf, sigmoid, sqrt, expf
from corpus.seeds import *
from corpus.seeds import CfgA, CfgB

PROCS = {}
REJ = {}


def _reg(name, thunk):
    try:
        PROCS[name] = thunk()
    except BaseException as e:  # rejected by the front end: always allowed
        if isinstance(e, (KeyboardInterrupt, SystemExit)):
            raise
        REJ[name] = type(e).__name__ + ": " + str(e).strip().splitlines()[-1][:160]

'''


def build_module(tag, progs):
    """progs: list of (name, source with decorator); returns module with PROCS / REJ"""
    d = WORK / "mut"
    d.mkdir(parents=True, exist_ok=True)
    path = d / f"m_{os.getpid()}_{tag}.py"
    parts = [MODULE_HEADER]
    for name, src in progs:
        ind = "\n".join("    " + l for l in src.splitlines())
        parts.append(f"def _mk_{name}():\n{ind}\n    return {name}\n\n\n_reg('{name}', _mk_{name})\n\n")
    with open(path, "w") as f:
        f.write("".join(parts))
    modname = f"_mut_{os.getpid()}_{tag}"
    spec = importlib.util.spec_from_file_location(modname, path)
    mod = importlib.util.module_from_spec(spec)
    sys.modules[modname] = mod
    try:
        spec.loader.exec_module(mod)
    finally:
        sys.modules.pop(modname, None)
        try:
            os.unlink(path)
        except OSError:
            pass
    return mod
