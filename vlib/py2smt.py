"""py2smt -- a small Python-AST -> z3 interpreter for exo/core/proc_eqv.py (engine E4).

The module's source is parsed with `ast` on every run and exactly the subset it
uses is interpreted symbolically.  Procedures are node ids 0..n-1 (z3 Int),
config keys are ids 0..K-1, a union-find's `lookup` WeakKeyDictionary is a finite
map id -> (present: Bool, parent: Int) held as Python lists of z3 terms, the
module-level dict `_UF_Unv_key` is a finite map key id -> (tracked: Bool,
union-find), a `config_set` frozenset is a list of K Bools.

Every mutation happens under a path guard (ite merge); `while` loops are unrolled
with an unwinding obligation; `return` inside branches is handled with a
"returned" flag.  Any construct outside the subset raises Py2SmtUnsupported,
which the check turns into a harness error (exit 3): an edit to proc_eqv.py can
never be silently mis-encoded.
"""
from __future__ import annotations

import os
import ast
from pathlib import Path
from typing import Any, Dict, List, Optional

import z3

SRC = Path(os.environ.get("VERIF_REPO", "/repo") + "/src/exo/core/proc_eqv.py")


class Py2SmtUnsupported(Exception):
    pass


IDW = 2  # node ids are bit-vectors of this width (n <= 2**IDW): finite-domain, decided by bit-blasting


def idv(i):
    return z3.BitVecVal(i, IDW)


def idvar(name):
    return z3.BitVec(name, IDW)


def B(x):
    if isinstance(x, bool):
        return z3.BoolVal(x)
    return x


def ite(c, a, b):
    c = B(c)
    if z3.is_true(c):
        return a
    if z3.is_false(c):
        return b
    if isinstance(a, bool) or isinstance(b, bool) or z3.is_bool(a) or z3.is_bool(b):
        return z3.If(c, B(a), B(b))
    return z3.If(c, a, b)


class UF:
    """symbolic _UnionFind instance"""

    def __init__(self, n, present=None, parent=None):
        self.n = n
        self.present = list(present) if present is not None else [z3.BoolVal(False)] * n
        self.parent = list(parent) if parent is not None else [idv(i) for i in range(n)]

    def copy(self):
        return UF(self.n, self.present, self.parent)

    def get_parent(self, i):
        r = self.parent[self.n - 1]
        for k in range(self.n - 2, -1, -1):
            r = z3.If(i == idv(k), self.parent[k], r)
        return r

    def get_present(self, i):
        r = self.present[self.n - 1]
        for k in range(self.n - 2, -1, -1):
            r = z3.If(i == idv(k), self.present[k], r)
        return r

    def set(self, g, i, v):
        for k in range(self.n):
            c = z3.And(B(g), i == idv(k))
            self.parent[k] = z3.If(c, v, self.parent[k])
            self.present[k] = z3.If(c, z3.BoolVal(True), self.present[k])


class Lookup:
    """the `lookup` attribute of a UF (so that `self.lookup[val]` can be interpreted)"""

    def __init__(self, uf: UF):
        self.uf = uf


class KeyDict:
    """symbolic `_UF_Unv_key`: key id -> UF, with a tracked bit"""

    def __init__(self, n, K, tracked=None, ufs=None):
        self.n, self.K = n, K
        self.tracked = list(tracked) if tracked is not None else [z3.BoolVal(False)] * K
        self.ufs = list(ufs) if ufs is not None else [UF(n) for _ in range(K)]


class ConfigSet:
    def __init__(self, member: List[Any]):
        self.member = [B(m) for m in member]


class Key:
    """a concrete key id used while iterating (loops over keys are unrolled over 0..K-1)"""

    def __init__(self, k):
        self.k = k


class State:
    def __init__(self, n, K):
        self.n, self.K = n, K
        self.unv = UF(n)
        self.strict = UF(n)
        self.keyd = KeyDict(n, K)


class Frame:
    def __init__(self, guard):
        self.env: Dict[str, Any] = {}
        self.guard = guard
        self.returned = z3.BoolVal(False)
        self.retval = None


class Interp:
    def __init__(self, state: State, unroll: int):
        self.tree = ast.parse(SRC.read_text())
        self.funcs: Dict[str, ast.FunctionDef] = {}
        self.methods: Dict[str, ast.FunctionDef] = {}
        for node in self.tree.body:
            if isinstance(node, ast.FunctionDef):
                self.funcs[node.name] = node
            elif isinstance(node, ast.ClassDef) and node.name == "_UnionFind":
                for m in node.body:
                    if isinstance(m, ast.FunctionDef):
                        self.methods[m.name] = m
        need = {"new_uf_by_eqv_key", "decl_new_proc", "derive_proc", "assert_eqv_proc", "check_eqv_proc", "get_strictest_eqv_proc"}
        if not need <= set(self.funcs) or not {"new_node", "find", "union", "check_eqv", "copy_entire_UF"} <= set(self.methods):
            raise Py2SmtUnsupported("proc_eqv.py no longer defines the expected functions")
        self.st = state
        self.unroll = unroll
        self.unwind_obls: List[Any] = []  # formulas that must be unsat-able: guard /\ cond after the last unrolling

    # ---- globals ------------------------------------------------------------
    def glob(self, name):
        if name == "_UF_Unv":
            return self.st.unv
        if name == "_UF_Strict":
            return self.st.strict
        if name == "_UF_Unv_key":
            return self.st.keyd
        raise Py2SmtUnsupported(f"global {name}")

    # ---- calls ----------------------------------------------------------------
    def call_function(self, name, args, guard):
        fn = self.funcs[name]
        return self.run_def(fn, args, guard)

    def call_method(self, uf: UF, name, args, guard):
        fn = self.methods[name]
        return self.run_def(fn, [uf] + list(args), guard)

    def run_def(self, fn: ast.FunctionDef, args, guard):
        fr = Frame(guard)
        params = [a.arg for a in fn.args.args]
        defaults = fn.args.defaults
        if len(args) < len(params):
            # defaults: only `config_set=frozenset()` occurs
            missing = params[len(args) :]
            for nm in missing:
                if nm == "config_set":
                    args = list(args) + [ConfigSet([False] * self.st.K)]
                else:
                    raise Py2SmtUnsupported(f"default for {nm}")
        for nm, v in zip(params, args):
            fr.env[nm] = v
        self.block(fn.body, fr)
        return fr.retval

    # ---- statements -------------------------------------------------------------
    def live(self, fr: Frame):
        return z3.And(B(fr.guard), z3.Not(fr.returned))

    def block(self, stmts, fr: Frame):
        for s in stmts:
            self.stmt(s, fr)

    def assign_name(self, fr, name, val):
        g = self.live(fr)
        if name in fr.env and isinstance(val, ConfigSet) and isinstance(fr.env[name], ConfigSet):
            old = fr.env[name]
            fr.env[name] = ConfigSet([ite(g, a, b) for a, b in zip(val.member, old.member)])
            return
        if name in fr.env and not isinstance(val, (UF, KeyDict, ConfigSet, Key, Lookup)) and not isinstance(fr.env[name], (UF, KeyDict, ConfigSet, Key, Lookup)):
            old = fr.env[name]
            fr.env[name] = ite(g, val, old)
        else:
            fr.env[name] = val

    def stmt(self, s, fr: Frame):
        if isinstance(s, ast.Expr):
            if isinstance(s.value, ast.Constant):
                return  # docstring
            self.expr(s.value, fr)
            return
        if isinstance(s, ast.Pass):
            return
        if isinstance(s, ast.Assert):
            t = s.test
            # only `assert isinstance(config_set, frozenset)` and `assert key not in _UF_Unv_key`
            if isinstance(t, ast.Call) and isinstance(t.func, ast.Name) and t.func.id == "isinstance":
                return
            v = self.expr(t, fr)
            self.unwind_obls.append(("assert", z3.And(self.live(fr), z3.Not(B(v)))))
            return
        if isinstance(s, ast.Assign):
            if len(s.targets) != 1:
                raise Py2SmtUnsupported("multi-target assignment")
            tgt = s.targets[0]
            if isinstance(tgt, ast.Tuple):
                if not isinstance(s.value, ast.Tuple) or len(tgt.elts) != len(s.value.elts):
                    raise Py2SmtUnsupported("tuple assignment shape")
                vals = [self.expr(e, fr) for e in s.value.elts]
                for t, v in zip(tgt.elts, vals):
                    self.assign_to(t, v, fr)
                return
            v = self.expr(s.value, fr)
            self.assign_to(tgt, v, fr)
            return
        if isinstance(s, ast.If):
            c = B(self.expr(s.test, fr))
            saved = fr.guard
            fr.guard = z3.And(B(saved), c)
            self.block(s.body, fr)
            fr.guard = z3.And(B(saved), z3.Not(c))
            self.block(s.orelse, fr)
            fr.guard = saved
            return
        if isinstance(s, ast.While):
            saved = fr.guard
            for _ in range(self.unroll):
                c = B(self.expr(s.test, fr))
                fr.guard = z3.And(B(fr.guard), c)
                self.block(s.body, fr)
            c = B(self.expr(s.test, fr))
            self.unwind_obls.append(("unwind", z3.And(self.live(fr), c)))
            fr.guard = saved
            if s.orelse:
                raise Py2SmtUnsupported("while-else")
            return
        if isinstance(s, ast.For):
            self.for_stmt(s, fr)
            return
        if isinstance(s, ast.Return):
            v = self.expr(s.value, fr) if s.value is not None else None
            g = self.live(fr)
            if fr.retval is None:
                fr.retval = v
            else:
                fr.retval = self.merge_val(g, v, fr.retval)
            fr.returned = z3.Or(fr.returned, g)
            return
        raise Py2SmtUnsupported(f"statement {type(s).__name__}")

    def merge_val(self, g, a, b):
        if isinstance(a, tuple) and isinstance(b, tuple) and len(a) == len(b):
            return tuple(self.merge_val(g, x, y) for x, y in zip(a, b))
        if isinstance(a, ConfigSet) and isinstance(b, ConfigSet):
            return ConfigSet([ite(g, x, y) for x, y in zip(a.member, b.member)])
        if isinstance(a, (UF, KeyDict)) or isinstance(b, (UF, KeyDict)):
            raise Py2SmtUnsupported("merging object-valued returns")
        return ite(g, a, b)

    def assign_to(self, tgt, v, fr):
        if isinstance(tgt, ast.Name):
            self.assign_name(fr, tgt.id, v)
            return
        if isinstance(tgt, ast.Subscript):
            base = self.expr(tgt.value, fr)
            idx = self.expr(tgt.slice, fr)
            g = self.live(fr)
            if isinstance(base, Lookup):
                base.uf.set(g, idx, v)
                return
            if isinstance(base, KeyDict):
                if not isinstance(idx, Key) or not isinstance(v, UF):
                    raise Py2SmtUnsupported("_UF_Unv_key[...] assignment shape")
                k = idx.k
                old = base.ufs[k]
                new = UF(old.n)
                for i in range(old.n):
                    new.present[i] = ite(g, v.present[i], old.present[i])
                    new.parent[i] = ite(g, v.parent[i], old.parent[i])
                base.ufs[k] = new
                base.tracked[k] = ite(g, True, base.tracked[k])
                return
        raise Py2SmtUnsupported(f"assignment target {ast.dump(tgt)[:60]}")

    def for_stmt(self, s: ast.For, fr: Frame):
        it = s.iter
        # for key in config_set:
        if isinstance(it, ast.Name):
            coll = self.expr(it, fr)
            if isinstance(coll, ConfigSet) and isinstance(s.target, ast.Name):
                saved = fr.guard
                for k in range(self.st.K):
                    fr.guard = z3.And(B(saved), coll.member[k])
                    fr.env[s.target.id] = Key(k)
                    self.block(s.body, fr)
                fr.guard = saved
                return
        # for key, uf in _UF_Unv_key.items():  /  for uf in _UF_Unv_key.values():  /  for v, p in self.lookup.items():
        if isinstance(it, ast.Call) and isinstance(it.func, ast.Attribute) and it.func.attr in ("items", "values") and not it.args:
            coll = self.expr(it.func.value, fr)
            saved = fr.guard
            if isinstance(coll, KeyDict):
                # snapshot of membership at loop entry (Python would raise on resize during iteration; none happens)
                tracked0 = list(coll.tracked)
                for k in range(self.st.K):
                    fr.guard = z3.And(B(saved), tracked0[k])
                    if it.func.attr == "items":
                        if not (isinstance(s.target, ast.Tuple) and len(s.target.elts) == 2):
                            raise Py2SmtUnsupported("items() target")
                        fr.env[s.target.elts[0].id] = Key(k)
                        fr.env[s.target.elts[1].id] = coll.ufs[k]
                    else:
                        fr.env[s.target.id] = coll.ufs[k]
                    self.block(s.body, fr)
                fr.guard = saved
                return
            if isinstance(coll, Lookup) and it.func.attr == "items":
                if not (isinstance(s.target, ast.Tuple) and len(s.target.elts) == 2):
                    raise Py2SmtUnsupported("lookup.items() target")
                uf = coll.uf
                pres0, par0 = list(uf.present), list(uf.parent)
                for i in range(uf.n):
                    fr.guard = z3.And(B(saved), pres0[i])
                    fr.env[s.target.elts[0].id] = idv(i)
                    fr.env[s.target.elts[1].id] = par0[i]
                    self.block(s.body, fr)
                fr.guard = saved
                return
        raise Py2SmtUnsupported(f"for loop over {ast.dump(it)[:80]}")

    # ---- expressions ---------------------------------------------------------------
    def expr(self, e, fr: Frame):
        if isinstance(e, ast.Name):
            if e.id in fr.env:
                return fr.env[e.id]
            if e.id in ("True", "False"):
                return e.id == "True"
            return self.glob(e.id)
        if isinstance(e, ast.Constant):
            if isinstance(e.value, bool) or e.value is None:
                return e.value
            raise Py2SmtUnsupported(f"constant {e.value!r}")
        if isinstance(e, ast.Attribute):
            base = self.expr(e.value, fr)
            if isinstance(base, UF) and e.attr == "lookup":
                return Lookup(base)
            raise Py2SmtUnsupported(f"attribute {e.attr}")
        if isinstance(e, ast.Subscript):
            base = self.expr(e.value, fr)
            idx = self.expr(e.slice, fr)
            if isinstance(base, Lookup):
                return base.uf.get_parent(idx)
            if isinstance(base, KeyDict) and isinstance(idx, Key):
                return base.ufs[idx.k]
            raise Py2SmtUnsupported("subscript")
        if isinstance(e, ast.UnaryOp) and isinstance(e.op, ast.Not):
            v = self.expr(e.operand, fr)
            if isinstance(v, ConfigSet):
                return z3.Not(z3.Or(*v.member))
            return z3.Not(B(v))
        if isinstance(e, ast.BoolOp):
            vs = [B(self.expr(v, fr)) for v in e.values]
            return z3.And(*vs) if isinstance(e.op, ast.And) else z3.Or(*vs)
        if isinstance(e, ast.Compare):
            if len(e.ops) != 1:
                raise Py2SmtUnsupported("chained comparison")
            a = self.expr(e.left, fr)
            b = self.expr(e.comparators[0], fr)
            op = e.ops[0]
            if isinstance(op, (ast.Is, ast.IsNot)):
                r = a == b
                return r if isinstance(op, ast.Is) else z3.Not(r)
            if isinstance(op, (ast.In, ast.NotIn)):
                if isinstance(b, Lookup):
                    r = b.uf.get_present(a)
                elif isinstance(b, KeyDict) and isinstance(a, Key):
                    r = b.tracked[a.k]
                elif isinstance(b, ConfigSet) and isinstance(a, Key):
                    r = b.member[a.k]
                else:
                    raise Py2SmtUnsupported("membership test")
                return r if isinstance(op, ast.In) else z3.Not(B(r))
            raise Py2SmtUnsupported(f"comparison {type(op).__name__}")
        if isinstance(e, ast.Tuple):
            return tuple(self.expr(x, fr) for x in e.elts)
        if isinstance(e, ast.Call):
            return self.call(e, fr)
        if isinstance(e, ast.SetComp):
            # {key for key, uf in _UF_Unv_key.items() if <cond>}  ->  ConfigSet
            if len(e.generators) != 1:
                raise Py2SmtUnsupported("set comprehension")
            gen = e.generators[0]
            it = gen.iter
            if not (isinstance(it, ast.Call) and isinstance(it.func, ast.Attribute) and it.func.attr == "items"):
                raise Py2SmtUnsupported("set comprehension iterable")
            coll = self.expr(it.func.value, fr)
            if not isinstance(coll, KeyDict) or not (isinstance(e.elt, ast.Name) and isinstance(gen.target, ast.Tuple) and e.elt.id == gen.target.elts[0].id):
                raise Py2SmtUnsupported("set comprehension shape")
            members = []
            for k in range(self.st.K):
                fr.env[gen.target.elts[0].id] = Key(k)
                fr.env[gen.target.elts[1].id] = coll.ufs[k]
                saved = fr.guard
                fr.guard = z3.And(B(saved), coll.tracked[k])
                c = z3.BoolVal(True)
                for cond in gen.ifs:
                    c = z3.And(c, B(self.expr(cond, fr)))
                fr.guard = saved
                members.append(z3.And(coll.tracked[k], c))
            return ConfigSet(members)
        if isinstance(e, ast.GeneratorExp):
            raise Py2SmtUnsupported("bare generator")
        raise Py2SmtUnsupported(f"expression {type(e).__name__}")

    def call(self, e: ast.Call, fr: Frame):
        f = e.func
        g = self.live(fr)
        if isinstance(f, ast.Name):
            if f.id == "all" and len(e.args) == 1 and isinstance(e.args[0], ast.GeneratorExp):
                ge = e.args[0]
                if len(ge.generators) != 1:
                    raise Py2SmtUnsupported("all() generator")
                gen = ge.generators[0]
                it = gen.iter
                if not (isinstance(it, ast.Call) and isinstance(it.func, ast.Attribute) and it.func.attr == "items"):
                    raise Py2SmtUnsupported("all() iterable")
                coll = self.expr(it.func.value, fr)
                if not isinstance(coll, KeyDict):
                    raise Py2SmtUnsupported("all() over non-dict")
                parts = []
                for k in range(self.st.K):
                    fr.env[gen.target.elts[0].id] = Key(k)
                    fr.env[gen.target.elts[1].id] = coll.ufs[k]
                    c = z3.BoolVal(True)
                    for cond in gen.ifs:
                        c = z3.And(c, B(self.expr(cond, fr)))
                    sel = z3.And(coll.tracked[k], c)
                    # evaluate the element under the selection guard (it may mutate through find())
                    saved = fr.guard
                    fr.guard = z3.And(B(saved), sel)
                    v = B(self.expr(ge.elt, fr))
                    fr.guard = saved
                    parts.append(z3.Implies(sel, v))
                return z3.And(*parts)
            if f.id == "set" and not e.args:
                return ConfigSet([False] * self.st.K)
            if f.id == "frozenset" and not e.args:
                return ConfigSet([False] * self.st.K)
            if f.id == "_UnionFind" and not e.args:
                return UF(self.st.n)
            if f.id in self.funcs:
                args = [self.expr(a, fr) for a in e.args]
                return self.call_function(f.id, args, g)
            raise Py2SmtUnsupported(f"call to {f.id}")
        if isinstance(f, ast.Attribute):
            base = self.expr(f.value, fr)
            if isinstance(base, UF) and f.attr in self.methods:
                args = [self.expr(a, fr) for a in e.args]
                return self.call_method(base, f.attr, args, g)
            raise Py2SmtUnsupported(f"method {f.attr}")
        raise Py2SmtUnsupported("call shape")
