"""Re-create the (procedure, argument tuple) of a recorded sweep instance."""
from __future__ import annotations

from . import sched_enum as SE
from .sweep import apply_op, dec_arg, load_env


def rebuild(record):
    env = load_env("tight_replace" if str(record.get("seed", "")).startswith("trh_") else None)
    p = None
    for nm, pr, _t in env["SEEDS"]:
        if nm == record["seed"]:
            p = pr
    if p is None:
        raise KeyError(record["seed"])
    ops = SE.all_ops(composite=True)
    for st in record.get("chain") or []:
        args = [dec_arg(a, p, env) for a in st["args"]]
        p, ex, _ = apply_op(ops[st["op"]], p, args)
        if p is None:
            raise RuntimeError(f"chain prefix step {st['op']} failed: {ex}")
    args = [dec_arg(a, p, env) for a in record["enc"]]
    return p, ops[record["op"]], args, env
