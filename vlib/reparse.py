"""C17 support: print a procedure, parse the text again through the real front
end (same memories, configs and callees in scope), and relate both trees."""
from __future__ import annotations

import hashlib
import importlib.util
import os
import sys

from exo.API import Procedure
from exo.core.LoopIR import LoopIR, T

from .common import WORK


class ReparseError(Exception):
    pass


def _callees(ir, out=None):
    out = {} if out is None else out

    def rec(stmts):
        for s in stmts:
            if isinstance(s, LoopIR.Call):
                if s.f.name in out and out[s.f.name] is not s.f:
                    raise ReparseError(f"two different callees named {s.f.name}")
                out[s.f.name] = s.f
            for attr in ("body", "orelse"):
                if hasattr(s, attr):
                    rec(getattr(s, attr))

    rec(ir.body)
    return out


def _configs(ir, out=None):
    out = {} if out is None else out

    def e(x):
        if isinstance(x, LoopIR.ReadConfig):
            out[x.config.name()] = x.config
        for attr in ("lhs", "rhs", "arg", "cond", "lo", "hi", "pt"):
            if hasattr(x, attr) and isinstance(getattr(x, attr), LoopIR.expr):
                e(getattr(x, attr))
        for attr in ("idx", "args"):
            if hasattr(x, attr):
                for y in getattr(x, attr):
                    if isinstance(y, LoopIR.expr):
                        e(y)
                    elif isinstance(y, LoopIR.Point):
                        e(y.pt)
                    elif isinstance(y, LoopIR.Interval):
                        e(y.lo)
                        e(y.hi)

    def rec(stmts):
        for s in stmts:
            if isinstance(s, LoopIR.WriteConfig):
                out[s.config.name()] = s.config
            for attr in ("rhs", "cond", "lo", "hi"):
                if hasattr(s, attr) and isinstance(getattr(s, attr), LoopIR.expr):
                    e(getattr(s, attr))
            for attr in ("idx", "args"):
                if hasattr(s, attr):
                    for y in getattr(s, attr):
                        e(y)
            if isinstance(s, LoopIR.Alloc) and isinstance(s.type, T.Tensor):
                for h in s.type.hi:
                    e(h)
            for attr in ("body", "orelse"):
                if hasattr(s, attr):
                    rec(getattr(s, attr))

    for p in ir.preds:
        e(p)
    rec(ir.body)
    return out


HEADER = """from __future__ import annotations
from exo import proc, instr, DRAM
from exo.libs.memories import *
from exo.libs.externs import *
"""


def reparse(q: Procedure) -> Procedure:
    ir = q._loopir_proc
    text = str(q)
    deco = "@proc\n"
    if ir.instr is not None:
        deco = f"@instr({ir.instr.c_instr!r}, {ir.instr.c_global!r})\n"
    src = HEADER + "\n\n" + deco + text + "\n"
    d = WORK / "c17"
    d.mkdir(parents=True, exist_ok=True)
    h = hashlib.sha256((src + str(os.getpid())).encode()).hexdigest()[:16]
    path = d / f"m_{h}.py"
    with open(path, "w") as f:
        f.write(src)
    modname = f"_c17_{h}"
    spec = importlib.util.spec_from_file_location(modname, path)
    mod = importlib.util.module_from_spec(spec)
    for nm, f_ir in _callees(ir).items():
        mod.__dict__[str(nm)] = Procedure(f_ir)
    for nm, cfg in _configs(ir).items():
        mod.__dict__[nm] = cfg
    # configs mentioned only inside callees are not needed for parsing the text
    try:
        sys.modules[modname] = mod
        spec.loader.exec_module(mod)
    except BaseException as ex:  # noqa
        if isinstance(ex, (KeyboardInterrupt, SystemExit)):
            raise
        raise ReparseError(f"{type(ex).__name__}: {str(ex)[:300]}")
    finally:
        sys.modules.pop(modname, None)
        try:
            os.unlink(path)
        except OSError:
            pass
    q2 = mod.__dict__.get(str(ir.name))
    if not isinstance(q2, Procedure):
        raise ReparseError("module did not define the procedure")
    return q2


# ---------------------------------------------------------------------------
# alpha-equivalence walk: the printed text must bind every use to the
# declaration it is bound to in the original tree


def alpha_mismatch(a, b):
    """returns None if the two procs are alpha-equivalent, else a description"""
    m = {}
    rev = {}

    def bind(x, y):
        m[x] = y
        rev[y] = x

    def same(x, y, what):
        if m.get(x) is not y and m.get(x) != y:
            raise ReparseError(f"{what}: {x!r} is bound to {m.get(x)!r} in the original's image but the text refers to {y!r}")

    def ty(t1, t2):
        if type(t1) is not type(t2):
            raise ReparseError(f"type {t1} vs {t2}")
        if isinstance(t1, T.Tensor):
            if len(t1.hi) != len(t2.hi) or t1.is_window != t2.is_window:
                raise ReparseError("tensor type shape/window-ness differs")
            for x, y in zip(t1.hi, t2.hi):
                e(x, y)
            ty(t1.type, t2.type)

    def e(x, y):
        if type(x) is not type(y):
            raise ReparseError(f"expr {x} vs {y}")
        if isinstance(x, LoopIR.Read):
            same(x.name, y.name, f"read {x}")
            if len(x.idx) != len(y.idx):
                raise ReparseError(f"index count {x} vs {y}")
            for i, j in zip(x.idx, y.idx):
                e(i, j)
        elif isinstance(x, LoopIR.Const):
            if x.val != y.val or type(x.val) is not type(y.val):
                raise ReparseError(f"const {x.val!r} vs {y.val!r}")
        elif isinstance(x, LoopIR.USub):
            e(x.arg, y.arg)
        elif isinstance(x, LoopIR.BinOp):
            if x.op != y.op:
                raise ReparseError(f"operator {x.op} vs {y.op} in {x} / {y}")
            e(x.lhs, y.lhs)
            e(x.rhs, y.rhs)
        elif isinstance(x, LoopIR.Extern):
            if x.f.name() != y.f.name() or len(x.args) != len(y.args):
                raise ReparseError("extern differs")
            for i, j in zip(x.args, y.args):
                e(i, j)
        elif isinstance(x, LoopIR.WindowExpr):
            same(x.name, y.name, f"window {x}")
            if len(x.idx) != len(y.idx):
                raise ReparseError("window rank differs")
            for i, j in zip(x.idx, y.idx):
                if type(i) is not type(j):
                    raise ReparseError("window access kind differs")
                if isinstance(i, LoopIR.Point):
                    e(i.pt, j.pt)
                else:
                    e(i.lo, j.lo)
                    e(i.hi, j.hi)
        elif isinstance(x, LoopIR.StrideExpr):
            same(x.name, y.name, "stride")
            if x.dim != y.dim:
                raise ReparseError("stride dim differs")
        elif isinstance(x, LoopIR.ReadConfig):
            if x.config is not y.config or x.field != y.field:
                raise ReparseError("config read differs")

    def block(xs, ys):
        if len(xs) != len(ys):
            raise ReparseError(f"block length {len(xs)} vs {len(ys)}")
        saved = dict(m)
        for x, y in zip(xs, ys):
            if type(x) is not type(y):
                raise ReparseError(f"statement kind {type(x).__name__} vs {type(y).__name__}")
            if isinstance(x, (LoopIR.Assign, LoopIR.Reduce)):
                same(x.name, y.name, f"write {x.name}")
                if len(x.idx) != len(y.idx):
                    raise ReparseError("lhs index count")
                for i, j in zip(x.idx, y.idx):
                    e(i, j)
                e(x.rhs, y.rhs)
            elif isinstance(x, LoopIR.WriteConfig):
                if x.config is not y.config or x.field != y.field:
                    raise ReparseError("config write differs")
                e(x.rhs, y.rhs)
            elif isinstance(x, LoopIR.If):
                e(x.cond, y.cond)
                block(x.body, y.body)
                block(x.orelse, y.orelse)
            elif isinstance(x, LoopIR.For):
                e(x.lo, y.lo)
                e(x.hi, y.hi)
                if type(x.loop_mode) is not type(y.loop_mode):
                    raise ReparseError("loop mode differs")
                old = m.get(x.iter)
                bind(x.iter, y.iter)
                block(x.body, y.body)
                if old is None:
                    m.pop(x.iter, None)
                else:
                    m[x.iter] = old
            elif isinstance(x, LoopIR.Alloc):
                ty(x.type, y.type)
                if x.mem is not y.mem:
                    raise ReparseError(f"memory {x.mem} vs {y.mem}")
                bind(x.name, y.name)
            elif isinstance(x, LoopIR.WindowStmt):
                e(x.rhs, y.rhs)
                bind(x.name, y.name)
            elif isinstance(x, LoopIR.Call):
                if x.f is not y.f:
                    raise ReparseError(f"callee {x.f.name} differs")
                if len(x.args) != len(y.args):
                    raise ReparseError("call arity")
                for i, j in zip(x.args, y.args):
                    e(i, j)
        m.clear()
        m.update(saved)

    try:
        if len(a.args) != len(b.args):
            raise ReparseError("argument count differs")
        for x, y in zip(a.args, b.args):
            ty(x.type, y.type)
            bind(x.name, y.name)
        if len(a.preds) != len(b.preds):
            raise ReparseError("assertion count differs")
        for x, y in zip(a.preds, b.preds):
            e(x, y)
        block(a.body, b.body)
    except ReparseError as ex:
        return str(ex)
    return None
