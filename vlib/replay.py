"""./vcheck replay <file>: re-run one recorded violation against the real code,
without any solver.  Exit 1 if it reproduces, 0 if it does not, 3 on error."""
from __future__ import annotations

import json
import sys
from fractions import Fraction


def _unjson_cex(c):
    args = []
    for a in c["args"]:
        if isinstance(a, dict):
            data = {}
            for k, v in a["data"].items():
                key = tuple(int(x) for x in k.strip("()").split(",") if x.strip() != "")
                data[key] = Fraction(v) if v is not None and v != "None" else None
            args.append({"shape": a["shape"], "data": data, "strides": a.get("strides")})
        else:
            args.append(a)
    cfg = {}
    for k, v in (c.get("cfg") or {}).items():
        m = k.strip("()").replace("'", "").split(",")
        key = (m[0].strip(), m[1].strip())
        cfg[key] = (v == "True") if v in ("True", "False") else (Fraction(v) if "/" in str(v) or "." in str(v) else int(v))
    return {"args": args, "cfg": cfg}


def replay(path):
    with open(path) as f:
        r = json.load(f)
    prop = r.get("property")
    print(f"property {prop}: {r.get('summary')}")
    try:
        if r.get("enc") is not None and r.get("seed") and r.get("op") and r.get("cex"):
            from .rebuild import rebuild
            from .sweep import apply_op, ignore_cfg_of
            from .equiv import conc_compare, conc_run
            from .loopsym import ConcViolation

            p, op, args, env = rebuild(r)
            q, ex, _ = apply_op(op, p, list(args))
            if q is None:
                print(f"the operation now raises {type(ex).__name__}: {ex}")
                return 0
            print("derived procedure:\n" + str(q))
            cex = _unjson_cex(r["cex"])
            if r.get("kind") in ("semantics", "inline_back"):
                _eqv, ign = ignore_cfg_of(p._loopir_proc, q._loopir_proc)
                differs, desc = conc_compare(p._loopir_proc, q._loopir_proc, cex, ign)
                print(("REPRODUCED: " if differs else "not reproduced: ") + desc)
                return 1 if differs else 0
            try:
                conc_run(p._loopir_proc, cex)
            except ConcViolation as cv:
                print(f"the original itself fails on this input: {cv}")
                return 0
            try:
                conc_run(q._loopir_proc, cex, check_preds=False)
            except ConcViolation as cv:
                print(f"REPRODUCED: derived procedure violates {cv}")
                return 1
            print("not reproduced")
            return 0
        if r.get("enc") is not None and r.get("seed") and r.get("op"):
            from .rebuild import rebuild
            from .sweep import apply_op
            from .wf import check_wellformed

            p, op, args, env = rebuild(r)
            q, ex, _ = apply_op(op, p, list(args))
            if q is None:
                print(f"the operation now raises {type(ex).__name__}: {ex}")
                return 0
            print("derived procedure:\n" + str(q))
            probs = check_wellformed(q._loopir_proc)
            if probs:
                print("REPRODUCED: " + "; ".join(probs[:3]))
                return 1
            if r.get("kind") == "wellformed":
                print("not reproduced: the derived procedure is well-formed")
                return 0
            if r.get("kind") == "compile_crash":
                try:
                    q.c_code_str()
                except Exception as cex:  # noqa
                    nm = type(cex).__name__
                    if nm in ("MemGenError", "ConfigError", "TypeError", "ParallelAnalysisError"):
                        print(f"not reproduced: compilation is refused by a documented check ({nm})")
                        return 0
                    print(f"REPRODUCED: compiling the derived procedure raises {nm}: {str(cex)[:200]}")
                    return 1
                print("not reproduced: the derived procedure compiles")
                return 0
            print("recorded detail:", json.dumps(r.get("detail"))[:800])
            return 1
    except Exception as ex:  # noqa
        print(f"replay error: {type(ex).__name__}: {ex}")
        return 3
    # C02 / C08: rebuild the program, compile it with the real backend and run the emitted C natively
    # (gcc, AddressSanitizer / UBSan) on the recorded inputs
    if prop in ("C02", "C08") and r.get("seed"):
        try:
            import os
            from .kf_predicates import _c02_program
            from .check_c02 import replay as native_replay
            from .llsym.harness import lower_to_ir, CompileFailure, uses_isa
            from exo.API import compile_procs_to_strings

            q = _c02_program(r)
            if q is None:
                print("the program can no longer be built (the operation now raises)")
                return 0
            print("program:\n" + str(q))
            tag = f"replay_{os.getpid()}"
            if r.get("kind") == "c_compile_error":
                c_text, h_text = compile_procs_to_strings([q], "t.h")
                try:
                    lower_to_ir(c_text, h_text, tag, extra_flags=("-mavx2", "-mfma") if uses_isa(c_text) else ())
                except CompileFailure as cf:
                    print("REPRODUCED: the emitted C is rejected by the C compiler:\n" + str(cf)[-600:])
                    return 1
                print("not reproduced: the emitted C compiles")
                return 0
            det = r.get("detail") or {}
            if isinstance(det, dict) and det.get("inputs"):
                v = dict(det)
                v["model"] = det["inputs"]
                ok, desc = native_replay(q, v, prop, tag)
                print(("REPRODUCED: " if ok else "not reproduced: ") + str(desc))
                return 1 if ok else 0
        except Exception as ex:  # noqa
            print(f"replay error: {type(ex).__name__}: {ex}")
            return 3
    # records that carry their own concrete evidence (native run, expression values, history)
    for k in ("detail", "assignment", "old", "new", "old_value", "new_value", "src", "wrapper", "message", "replay"):
        if r.get(k) is not None:
            print(f"{k}: {json.dumps(r[k])[:1200]}")
    return 1


if __name__ == "__main__":
    sys.exit(replay(sys.argv[1]))
