"""Schedule enumeration: every AtomicSchedulingOp found by introspection of
exo.API_scheduling, with argument candidates generated from the types of its
argument processors (DESIGN Appendix D)."""
from __future__ import annotations

import itertools
import random
from typing import Any, Dict, List

import exo.API_scheduling as AS
import exo.API_cursors as PC
from exo.API import Procedure
from exo.libs.memories import DRAM, DRAM_STACK, DRAM_STATIC

EXCLUDED_OPS = {
    "add_unsafe_guard",  # documented escape hatch
}


def all_ops(composite: bool = False) -> Dict[str, Any]:
    """atomic scheduling operations found by introspection; with composite=True also the
    standard-library composite schedules (vlib/composites.py), keyed "std.<name>" """
    ops = {}
    for nm in dir(AS):
        x = getattr(AS, nm)
        if AS.is_atomic_scheduling_op(x):
            ops[x.__name__] = x
    for nm in EXCLUDED_OPS:
        ops.pop(nm, None)
    if composite:
        from .composites import composite_ops

        for nm, (fn, _gen) in composite_ops().items():
            ops[nm] = fn
    return ops


# ---------------------------------------------------------------------------
# cursor enumeration


def _is_valid(c):
    return not isinstance(c, PC.InvalidCursor)


def walk_blocks(p: Procedure):
    """yield every BlockCursor that is a full body/orelse"""

    def rec(blk):
        yield blk
        for s in blk:
            if isinstance(s, PC.ForCursor):
                yield from rec(s.body())
            elif isinstance(s, PC.IfCursor):
                yield from rec(s.body())
                oe = s.orelse()
                if _is_valid(oe) and len(oe) > 0:
                    yield from rec(oe)

    yield from rec(p.body())


def stmt_cursors(p):
    out = []
    for blk in walk_blocks(p):
        for s in blk:
            out.append(s)
    return out


def block_cursors(p, maxlen=3):
    out = []
    for blk in walk_blocks(p):
        n = len(blk)
        for i in range(n):
            for j in range(i + 1, min(n, i + maxlen) + 1):
                out.append(blk[i:j])
    return out


def gap_cursors(p):
    out = []
    for blk in walk_blocks(p):
        for s in blk:
            out.append(s.before())
        out.append(blk[len(blk) - 1].after())
    return out


def _sub_exprs(e, depth=0):
    yield e
    if depth > 4:
        return
    if isinstance(e, PC.BinaryOpCursor):
        yield from _sub_exprs(e.lhs(), depth + 1)
        yield from _sub_exprs(e.rhs(), depth + 1)
    elif isinstance(e, PC.UnaryMinusCursor):
        yield from _sub_exprs(e.arg(), depth + 1)
    elif isinstance(e, PC.ExternFunctionCursor):
        for a in e.args():
            yield from _sub_exprs(a, depth + 1)
    elif isinstance(e, PC.ReadCursor):
        for a in e.idx():
            yield from _sub_exprs(a, depth + 1)


def expr_cursors(p, limit=24):
    out = []
    for s in stmt_cursors(p):
        roots = []
        if isinstance(s, (PC.AssignCursor, PC.ReduceCursor)):
            roots.append(s.rhs())
            roots.extend(list(s.idx()))
        elif isinstance(s, PC.AssignConfigCursor):
            roots.append(s.rhs())
        elif isinstance(s, PC.ForCursor):
            roots += [s.lo(), s.hi()]
        elif isinstance(s, PC.IfCursor):
            roots.append(s.cond())
        elif isinstance(s, PC.CallCursor):
            roots.extend(list(s.args()))
        for r in roots:
            try:
                out.extend(_sub_exprs(r))
            except Exception:
                pass
    # deterministic thinning, prefer variety
    if len(out) > limit:
        step = len(out) / limit
        out = [out[int(k * step)] for k in range(limit)]
    return out


def enclosing_iters(c):
    names = []
    try:
        cur = c
        while True:
            if isinstance(cur, PC.GapCursor):
                cur = cur.anchor()
            cur = cur.parent()
            if not _is_valid(cur):
                break
            if isinstance(cur, PC.ForCursor):
                names.append(cur.name())
    except Exception:
        pass
    return names


def ctrl_arg_names(p):
    sizes, idxs, bools = [], [], []
    ir = p._loopir_proc
    from exo.core.LoopIR import T

    for a in ir.args:
        if isinstance(a.type, T.Size):
            sizes.append(a.name.name())
        elif isinstance(a.type, (T.Index, T.Int)):
            idxs.append(a.name.name())
        elif isinstance(a.type, T.Bool):
            bools.append(a.name.name())
    return sizes, idxs, bools


def buffers_of(p):
    """[(name, [shape strings])] of tensor arguments and allocations"""
    out = []
    ir = p._loopir_proc
    for a in ir.args:
        if a.type.is_tensor_or_window():
            out.append((a.name.name(), [str(e) for e in a.type.shape()]))
    from exo.core.LoopIR import LoopIR

    def rec(stmts):
        for s in stmts:
            if isinstance(s, LoopIR.Alloc) and s.type.is_tensor_or_window():
                out.append((s.name.name(), [str(e) for e in s.type.shape()]))
            elif isinstance(s, LoopIR.For):
                rec(s.body)
            elif isinstance(s, LoopIR.If):
                rec(s.body)
                rec(s.orelse)

    rec(ir.body)
    return out


# ---------------------------------------------------------------------------
# candidates per argument processor


class Cands:
    def __init__(self, p: Procedure, env, rng: random.Random, expr_limit=24):
        self.p = p
        self.env = env  # dict with SUBPROCS, CONFIGS
        self.rng = rng
        self.stmts = stmt_cursors(p)
        self.blocks = block_cursors(p)
        self.gaps = gap_cursors(p)
        self.exprs = expr_cursors(p, expr_limit)
        self.sizes, self.idxs, self.bools = ctrl_arg_names(p)
        self.bufs = buffers_of(p)

    def new_exprs(self, ctx_cursor):
        its = enclosing_iters(ctx_cursor) if ctx_cursor is not None else []
        pool: List[Any] = [0, 1, 2, 4]
        for n in self.sizes[:2]:
            pool += [n, f"{n} - 1", f"{n} / 2", f"{n} + 1"]
        for i in its[:2]:
            pool += [i, f"{i} + 1", f"2 * {i}"]
        for k in self.idxs[:1]:
            pool += [k]
        return pool

    def bool_exprs(self, ctx_cursor):
        its = enclosing_iters(ctx_cursor) if ctx_cursor is not None else []
        pool = []
        for n in self.sizes[:1]:
            pool += [f"{n} > 1", f"{n} == 2"]
        for i in its[:1]:
            pool += [f"{i} == 0", f"{i} < 1"]
        for b in self.bools[:1]:
            pool += [b]
        return pool

    def windows(self, ctx_cursor):
        its = enclosing_iters(ctx_cursor) if ctx_cursor is not None else []
        out = []
        for nm, shp in self.bufs:
            if not shp:
                out.append(nm)
                continue
            out.append(f"{nm}[" + ", ".join(f"0:{d}" for d in shp) + "]")
            if its:
                i = its[0]
                out.append(f"{nm}[" + ", ".join([f"{i}:{i}+1"] + [f"0:{d}" for d in shp[1:]]) + "]")
                out.append(f"{nm}[" + ", ".join([f"{i}"] + [f"0:{d}" for d in shp[1:]]) + "]") if len(shp) > 1 else None
                if len(shp) > 1 and len(its) > 1:
                    out.append(f"{nm}[{its[1]}, {its[0]}:{its[0]}+1" + "".join(f", 0:{d}" for d in shp[2:]) + "]")
            out.append(f"{nm}[" + ", ".join(["0:1"] + [f"0:{d}" for d in shp[1:]]) + "]")
        return out

    def for_proc(self, ap, pname, opname, ctx):
        """candidate values for one argument processor"""
        A = AS
        st = self.stmts
        if isinstance(ap, A.OptionalA):
            return [None] + self.for_proc(ap.arg_proc, pname, opname, ctx)[:2]
        if isinstance(ap, A.ListOrElemA):
            inner = self.for_proc(ap.elem_arg_proc, pname, opname, ctx)
            return inner
        if isinstance(ap, A.ListA):
            ea = ap.elem_arg_proc
            if isinstance(ea, A.NameA):
                n = ap.fixed_length or 2
                base = [[f"v{k}o" for k in range(n)]]
                if n == 2:
                    base = [["io", "ii"], ["i", "i"]]
                return base
            if isinstance(ea, A.IntA):
                return [list(pm) for r in (2, 3) for pm in itertools.permutations(range(r))]
            if isinstance(ea, A.NewExprA):
                return [[x] for x in self.bool_exprs(ctx)]
            return []
        if isinstance(ap, A.ExprCursorA):
            if ap.match_many:
                # singletons, plus pairs of textually equal expressions (the op documents "multiple
                # instances of the same expression"; equal text does not imply equal variables)
                pairs = []
                by_txt = {}
                for e in self.exprs:
                    try:
                        by_txt.setdefault(str(e._impl._node), []).append(e)
                    except Exception:
                        pass
                for txt, es in by_txt.items():
                    if len(es) >= 2 and not txt.replace(".", "").replace("-", "").isdigit():
                        pairs.append([es[0], es[1]])
                        if len(es) >= 3:
                            pairs.append([es[0], es[-1]])
                return pairs[:6] + [[e] for e in self.exprs]
            return list(self.exprs)
        if isinstance(ap, A.NestedForCursorA):
            return [s for s in st if isinstance(s, PC.ForCursor) and len(s.body()) == 1 and isinstance(s.body()[0], PC.ForCursor)]
        if isinstance(ap, A.ForCursorA):
            return [s for s in st if isinstance(s, PC.ForCursor)]
        if isinstance(ap, A.IfCursorA):
            return [s for s in st if isinstance(s, PC.IfCursor)]
        if isinstance(ap, A.ForOrIfCursorA):
            return [s for s in st if isinstance(s, (PC.ForCursor, PC.IfCursor))]
        if isinstance(ap, A.AllocCursorA):
            return [s for s in st if isinstance(s, PC.AllocCursor)]
        if isinstance(ap, A.WindowStmtCursorA):
            return [s for s in st if isinstance(s, PC.WindowStmtCursor)]
        if isinstance(ap, A.AssignCursorA):
            return [s for s in st if isinstance(s, PC.AssignCursor)]
        if isinstance(ap, A.AssignOrReduceCursorA):
            return [s for s in st if isinstance(s, (PC.AssignCursor, PC.ReduceCursor))]
        if isinstance(ap, A.CallCursorA):
            return [s for s in st if isinstance(s, PC.CallCursor)]
        if isinstance(ap, A.ArgCursorA):
            return [a for a in self.p.args() if a.is_tensor()] + [a for a in self.p.args() if not a.is_tensor()][:1]
        if isinstance(ap, A.ArgOrAllocCursorA):
            return [a for a in self.p.args() if a.is_tensor()][:3] + [s for s in st if isinstance(s, PC.AllocCursor)]
        if isinstance(ap, A.BlockCursorA):
            if ap.block_size:
                return [b for b in self.blocks if len(b) == ap.block_size]
            return list(self.blocks)
        if isinstance(ap, A.GapCursorA):
            return list(self.gaps)
        if isinstance(ap, A.StmtCursorA):
            return list(st)
        if isinstance(ap, A.CustomWindowExprA):
            return self.windows(ctx)
        if isinstance(ap, A.NewExprOrCustomWindowExprA):
            return self.new_exprs(ctx) + self.windows(ctx)
        if isinstance(ap, A.NewExprA):
            return self.new_exprs(ctx)
        if isinstance(ap, A.PosIntA):
            return [1, 2, 3, 4]
        if isinstance(ap, A.IntA):
            return [0, 1, 2, -1]
        if isinstance(ap, A.BoolA):
            if pname.startswith("unsafe"):
                return [False]
            return [False, True]
        if isinstance(ap, A.EnumA):
            return list(ap.enum_vals)
        if isinstance(ap, A.NameA):
            return ["vnew", "i"]
        if isinstance(ap, A.MemoryA):
            return [DRAM, DRAM_STACK, DRAM_STATIC]
        if isinstance(ap, A.TypeAbbrevA):
            return ["f32", "f64"]
        if isinstance(ap, A.ConfigA):
            return list(self.env.get("CONFIGS", []))
        if isinstance(ap, A.ConfigFieldA):
            return ["__FIELDS__"]  # resolved against the chosen config
        if isinstance(ap, A.ProcA):
            extra = list(self.env.get("X86", [])) if opname == "replace" else []
            return list(self.env.get("SUBPROCS", [])) + extra
        if isinstance(ap, A.InstrStrA):
            return ["/* instr */"]
        return []


def describe_arg(a):
    if isinstance(a, PC.Cursor):
        try:
            txt = str(a).strip().splitlines()
            # the cursor's own rendering marks the position; keep it short
            return f"<{type(a).__name__}:{_cursor_path(a)}>"
        except Exception:
            return f"<{type(a).__name__}>"
    if isinstance(a, Procedure):
        return f"<proc {a.name()}>"
    if isinstance(a, type):
        return a.__name__
    if isinstance(a, list):
        return "[" + ", ".join(describe_arg(x) for x in a) + "]"
    if hasattr(a, "name") and callable(a.name) and not isinstance(a, str):
        try:
            return f"<{type(a).__name__} {a.name()}>"
        except Exception:
            pass
    return repr(a)


def _cursor_path(c):
    impl = c._impl
    fmt = lambda path: ".".join(f"{a}{'' if i is None else i}" for a, i in path)
    if hasattr(impl, "_path"):
        return fmt(impl._path)
    if hasattr(impl, "_range"):
        return "blk@" + fmt(impl._anchor._path) + f":{impl._attr}[{impl._range.start}:{impl._range.stop}]"
    if hasattr(impl, "_type"):
        return "gap@" + fmt(impl._anchor._path) + f":{impl._type.name}"
    return "?"


def candidates(p: Procedure, opname: str, op, env, rng: random.Random, cap: int = 40):
    """-> list of argument tuples (excluding the leading proc)"""
    cs = env.get("_cands_cache")
    if cs is None or cs.p is not p:
        cs = Cands(p, env, rng)
        env["_cands_cache"] = cs
    params = list(op.sig.parameters)[1:]
    aps = op.arg_procs[1:]
    # the first cursor argument gives context for expression strings
    per_param: List[List[Any]] = []
    first_cursor_cands = None
    ctx_needed = any(isinstance(ap, (AS.NewExprA,)) or (isinstance(ap, (AS.ListA,)) and isinstance(ap.elem_arg_proc, AS.NewExprA)) for ap in aps)
    if not aps:
        return [()]
    # candidates for context-free params
    lists = []
    for pn, ap in zip(params, aps):
        lists.append(cs.for_proc(ap, pn, opname, None))
    # build combos; context-dependent params are re-generated per first-cursor choice
    combos = []
    if ctx_needed and aps and isinstance(aps[0], AS.CursorArgumentProcessor):
        for c0 in lists[0]:
            ctx = c0[0] if isinstance(c0, list) and c0 else c0
            ls = [[c0]]
            for pn, ap in zip(params[1:], aps[1:]):
                ls.append(cs.for_proc(ap, pn, opname, ctx))
            combos.append(ls)
    else:
        combos.append(lists)
    out = []
    for ls in combos:
        if any(len(l) == 0 for l in ls):
            continue
        total = 1
        for l in ls:
            total *= len(l)
        if total <= cap * 4:
            prod = list(itertools.product(*ls))
        else:
            prod = []
            seen = set()
            for _ in range(cap * 4):
                pick = tuple(rng.randrange(len(l)) for l in ls)
                if pick in seen:
                    continue
                seen.add(pick)
                prod.append(tuple(l[k] for l, k in zip(ls, pick)))
        out.extend(prod)
    # resolve config fields
    res = []
    for t in out:
        if "__FIELDS__" in t:
            cfg = next((x for x in t if hasattr(x, "has_field")), None)
            if cfg is None:
                continue
            for f, _ty in cfg.fields():
                res.append(tuple(f if x == "__FIELDS__" else x for x in t))
        else:
            res.append(t)
    # the caller stops after `cap` ACCEPTED applications; rejected attempts are cheap, so up to 4*cap
    # candidates are offered (in a seeded random order when there are more than cap)
    if len(res) > cap:
        rng.shuffle(res)
        res = res[: cap * 4]
    return res
