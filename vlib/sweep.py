"""The schedule sweep: for every (procedure, scheduling op, argument candidate)
run the real operation and decide the per-instance clauses of C01, C04, C07
(and feed C06/C17) with loopsym + z3.

One OS process per seed procedure (multiprocessing), results are plain dicts.
"""
from __future__ import annotations

import importlib
import json
import os
import random
import sys
import time
import traceback
from typing import Any, Dict, List

import z3

from . import loopsym as L
from . import sched_enum as SE
from .equiv import ProcCtx, Verdict, cex_to_json, conc_compare, conc_run
from .loopsym import Bounds, ConcViolation, TooBig, Unsupported
from .wf import check_wellformed

import exo.API_cursors as PC
import exo.core.internal_cursors as IC
from exo.API import Procedure
from exo.core.proc_eqv import get_strictest_eqv_proc
from exo.core.configs import reverse_config_lookup

DOCUMENTED_BACKEND_ERRORS = ("MemGenError", "ConfigError", "TypeError", "SchedulingError", "ParallelAnalysisError")


# ---------------------------------------------------------------------------
# argument (de)serialisation for replay files


def enc_arg(a):
    if isinstance(a, PC.InvalidCursor):
        return {"k": "invalid"}
    if isinstance(a, PC.Cursor):
        impl = a._impl
        if isinstance(impl, IC.Node):
            return {"k": "node", "path": [[x, i] for x, i in impl._path]}
        if isinstance(impl, IC.Block):
            return {"k": "block", "anchor": [[x, i] for x, i in impl._anchor._path], "attr": impl._attr, "lo": impl._range.start, "hi": impl._range.stop}
        if isinstance(impl, IC.Gap):
            return {"k": "gap", "anchor": [[x, i] for x, i in impl._anchor._path], "type": impl._type.name}
        return {"k": "cursor?", "repr": repr(impl)}
    if isinstance(a, Procedure):
        return {"k": "proc", "name": a.name()}
    if isinstance(a, type):
        return {"k": "class", "name": a.__name__}
    if type(a).__name__ == "ExoType":
        return {"k": "exotype", "name": a.name}
    if hasattr(a, "has_field"):
        return {"k": "config", "name": a.name()}
    if isinstance(a, (list, tuple)):
        return {"k": "list", "items": [enc_arg(x) for x in a]}
    if callable(a) and getattr(a, "__module__", "") == "exo.stdlib.stdlib":
        return {"k": "stdfn", "name": a.__name__}
    if a is None or isinstance(a, (int, str, bool, float)):
        return {"k": "lit", "v": a}
    return {"k": "?", "repr": repr(a)}


def dec_arg(d, p: Procedure, env):
    k = d["k"]
    root = p._loopir_proc
    if k == "node":
        return PC.lift_cursor(IC.Node(root, [(x, i) for x, i in d["path"]]), p)
    if k == "block":
        anchor = IC.Node(root, [(x, i) for x, i in d["anchor"]])
        return PC.lift_cursor(IC.Block(root, anchor, d["attr"], range(d["lo"], d["hi"])), p)
    if k == "gap":
        anchor = IC.Node(root, [(x, i) for x, i in d["anchor"]])
        return PC.lift_cursor(IC.Gap(root, anchor, IC.GapType[d["type"]]), p)
    if k == "proc":
        for sp in env["SUBPROCS"] + env.get("X86", []) + [s[1] for s in env["SEEDS"]]:
            if sp.name() == d["name"]:
                return sp
        raise KeyError(d["name"])
    if k == "class":
        import exo.libs.memories as M

        return getattr(M, d["name"])
    if k == "config":
        for c in env["CONFIGS"]:
            if c.name() == d["name"]:
                return c
        raise KeyError(d["name"])
    if k == "list":
        return [dec_arg(x, p, env) for x in d["items"]]
    if k == "lit":
        return d["v"]
    if k == "invalid":
        return PC.InvalidCursor()
    if k == "exotype":
        from exo.API_types import ExoType

        return ExoType[d["name"]]
    if k == "stdfn":
        import exo.stdlib.stdlib as _S

        return getattr(_S, d["name"])
    raise ValueError(f"cannot decode {d}")


def short_args(args):
    return "(" + ", ".join(SE.describe_arg(a) for a in args) + ")"


# ---------------------------------------------------------------------------


X86_POOL = ["mm256_loadu_ps", "mm256_storeu_ps", "mm256_fmadd_ps", "mm256_mul_ps", "mm256_add_ps", "mm256_setzero_ps", "avx2_reg_copy_ps", "mm256_prefix_store_ps", "mm256_prefix_load_ps", "avx2_mask_storeu_ps", "mm256_broadcast_ss_scalar", "avx2_reduce_add_wide_ps"]


_DIRTY = False  # set when an operation was seen to modify a corpus procedure in place (C07): rebuild the corpus


def load_env(extra=None):
    global _DIRTY
    import corpus.seeds as S

    if _DIRTY:
        S = importlib.reload(S)
        _DIRTY = False

    env = {"SEEDS": S.SEEDS, "SUBPROCS": list(S.SUBPROCS), "CONFIGS": S.CONFIGS, "ORIGIN": dict(S.ORIGIN)}
    if extra == "tight_replace":
        import corpus.tight_replace as TR

        env["SEEDS"] = list(S.SEEDS) + list(TR.TR_SEEDS)
        env["SUBPROCS"] = list(TR.TR_SUBPROCS) + list(S.SUBPROCS)
    try:
        import exo.platforms.x86 as X

        env["X86"] = [getattr(X, nm) for nm in X86_POOL if hasattr(X, nm)]
    except Exception:
        env["X86"] = []
    return env


def first_proc(res):
    if isinstance(res, Procedure):
        return res
    if isinstance(res, tuple):
        for x in res:
            if isinstance(x, Procedure):
                return x
    return None


def ignore_cfg_of(p_ir, q_ir):
    is_eqv, keys = get_strictest_eqv_proc(p_ir, q_ir)
    out = set()
    for k in keys:
        cfg, fld = reverse_config_lookup(k)
        out.add((cfg.name(), fld))
    return is_eqv, out


def tree_fingerprint(ir):
    """structural fingerprint incl. object identities of nodes and lists"""
    return repr(ir)


class LiveSet:
    """procedures alive before an operation, with snapshots (C07)"""

    def __init__(self, procs: List[Procedure]):
        self.procs = procs
        self.fp = [tree_fingerprint(p._loopir_proc) for p in procs]
        self.txt = [str(p) for p in procs]

    def changed(self):
        out = []
        for k, p in enumerate(self.procs):
            if tree_fingerprint(p._loopir_proc) != self.fp[k] or str(p) != self.txt[k]:
                out.append(k)
        return out


_CALLEE_CACHE = {}


def _callee_names(p_ir):
    k = id(p_ir)
    if k not in _CALLEE_CACHE:
        from exo.core.LoopIR import LoopIR as _L

        out = set()

        def rec(stmts, depth=0):
            for st in stmts:
                if isinstance(st, _L.Call):
                    if st.f.name not in out and depth < 4:
                        out.add(st.f.name)
                        rec(st.f.body, depth + 1)
                for attr in ("body", "orelse"):
                    if hasattr(st, attr):
                        rec(getattr(st, attr), depth)

        rec(p_ir.body)
        if len(_CALLEE_CACHE) > 500:
            _CALLEE_CACHE.clear()
        _CALLEE_CACHE[k] = out
    return _CALLEE_CACHE[k]


class OpTimeout(Exception):
    pass


OP_TIMEOUT_S = 15.0


_EXO_CTX = None


def with_watchdog(fn, timeout_s=None):
    """Run fn() (a call into Exo).  Exo's own SMT queries have no timeout, so a watchdog thread
    interrupts z3 when the call takes too long.  Exo (through pysmt) uses z3's *default* context;
    during the call the default context is switched to a private one, so that the interrupt (whose
    cancel flag is sticky when it arrives while z3 is idle) can never poison the checker's own
    solver state; a context that has been interrupted is discarded."""
    import threading

    global _EXO_CTX
    if _EXO_CTX is None:
        _EXO_CTX = z3.Context()
    ctx = _EXO_CTX
    fired = []

    def fire():
        fired.append(True)
        try:
            ctx.interrupt()
        except Exception:
            pass

    saved = z3.z3._main_ctx
    z3.z3._main_ctx = ctx
    t = threading.Timer(timeout_s or OP_TIMEOUT_S, fire)
    t.daemon = True
    t.start()
    try:
        r = fn()
    except BaseException as ex:  # noqa
        if fired:
            raise OpTimeout(f"operation interrupted after {timeout_s or OP_TIMEOUT_S}s ({type(ex).__name__})")
        raise
    finally:
        t.cancel()
        z3.z3._main_ctx = saved
        if fired:
            _EXO_CTX = None
    return r


class AtomicTrace:
    """Harness-side wrapper of AtomicSchedulingOp.__call__ (the repository is not touched): while
    active, every *outermost* successful call of an atomic scheduling operation is logged with its
    input procedure, raw arguments and result.  Used to decompose a standard-library composite
    schedule into the primitive steps it performed, so that a violation of the composite can be
    localised to the first offending primitive (and replayed / matched against known findings as an
    ordinary chain of primitives)."""

    def __init__(self):
        self.steps = []
        self.depth = 0
        self.orig = None

    def __enter__(self):
        import exo.API_scheduling as _AS

        self.orig = _AS.AtomicSchedulingOp.__call__
        tr = self

        def traced(op_self, *args, **kwargs):
            if tr.depth > 0:
                return tr.orig(op_self, *args, **kwargs)
            try:
                ba = op_self.sig.bind(*args, **kwargs)
                ba.apply_defaults()
                proc = ba.args[0]
                raw = [list(a) if isinstance(a, list) else a for a in ba.args[1:]]
            except Exception:
                proc, raw = None, None
            tr.depth += 1
            try:
                res = tr.orig(op_self, *args, **kwargs)
            finally:
                tr.depth -= 1
            if proc is not None:
                tr.steps.append({"op": op_self.__name__, "proc": proc, "raw": raw, "out": first_proc(res)})
            return res

        _AS.AtomicSchedulingOp.__call__ = traced
        return self

    def __exit__(self, *exc):
        import exo.API_scheduling as _AS

        _AS.AtomicSchedulingOp.__call__ = self.orig
        return False

    def path(self, p, q):
        """the primitive steps leading from p to q, or None"""
        by_out = {}
        for st in self.steps:
            if st["out"] is not None and st["out"] is not st["proc"]:
                by_out[id(st["out"])] = st
        seq = []
        cur = q
        while cur is not p:
            st = by_out.get(id(cur))
            if st is None or len(seq) > 300:
                return None
            seq.append(st)
            cur = st["proc"]
        return list(reversed(seq))


def _forward_raw(a, p_in):
    import exo.API_scheduling as _AS

    if isinstance(a, _AS.FormattedExprStr):
        # holes are LoopIR expressions: render them into the string (re-parsed by name in the same scope;
        # faithfulness is validated by comparing the re-applied step with the traced result)
        parts = a._expr_str.split("_")
        if len(parts) - 1 != len(a._expr_holes):
            raise ValueError("hole count")
        txt = parts[0]
        for h, rest in zip(a._expr_holes, parts[1:]):
            txt += "(" + str(h) + ")" + rest
        return txt
    if isinstance(a, PC.InvalidCursor):
        return a
    if isinstance(a, PC.Cursor):
        return a if a.proc() is p_in else p_in.forward(a)
    if isinstance(a, (list, tuple)):
        return [_forward_raw(x, p_in) for x in a]
    return a


def apply_op(op, p, args):
    """returns (result procedure or None, exception or None)"""
    try:
        res = with_watchdog(lambda: op(p, *args))
        return first_proc(res), None, res
    except BaseException as ex:  # noqa
        if isinstance(ex, (KeyboardInterrupt, SystemExit, MemoryError)):
            raise
        return None, ex, None


def sweep_seed(job):
    """worker: one seed procedure, all ops.  job: dict"""
    t_start = time.time()
    sys.setrecursionlimit(10000)
    env = load_env(job.get("extra_corpus"))
    name = job["seed_name"]
    props = set(job["props"])
    tier = job["tier"]
    rng = random.Random(f"{job['rngseed']}-{name}")
    bounds = Bounds(**job["bounds"])
    cap = job["cap"]
    budget_s = job.get("budget_s", 1e9)
    out = {"seed": name, "instances": [], "errors": [], "stats": {}}
    p = None
    for nm, pr, tags in env["SEEDS"]:
        if nm == name:
            p = pr
    if job.get("chain"):
        # apply a recorded prefix of steps first
        for st in job["chain"]:
            op = SE.all_ops(composite=True)[st["op"]]
            args = [dec_arg(a, p, env) for a in st["args"]]
            p, ex, _ = apply_op(op, p, args)
            if p is None:
                out["errors"].append(f"chain prefix failed: {ex}")
                return out
    ops = SE.all_ops()
    only = job.get("ops")
    out["p_src"] = str(p)
    try:
        ctx = ProcCtx(p._loopir_proc, bounds, timeout_ms=job.get("timeout_ms", 30000))
    except (Unsupported, TooBig, L.IllFormed) as ex:
        out["errors"].append(f"cannot encode original: {type(ex).__name__}: {ex}")
        return out
    if not ctx.assumptions_sat():
        out["errors"].append("assumptions unsatisfiable (vacuous)")
        return out
    ctx._pop()
    out["stats"]["p_stmts"] = ctx.r1.nstmts
    out["stats"]["p_obls"] = len(ctx.r1.obls)
    if "C17" in props and not job.get("chain"):
        rec0 = {"op": "(as written)", "args": "()", "enc": [], "status": "accepted", "q_src": str(p)}
        try:
            c17_check(p, bounds, rec0, tier, rng, force_solver=True)
        except Exception as ex:
            rec0["status"] = "harness_error"
            rec0["why"] = f"{type(ex).__name__}: {ex}"
        out["instances"].append(rec0)
    live = [p] + [sp for sp in env["SUBPROCS"]]
    n_attempt = 0
    corrupted = False
    for opname in sorted(ops):
        if job.get("atomic", True) is False:
            break
        if only and opname not in only:
            continue
        op = ops[opname]
        try:
            cands = SE.candidates(p, opname, op, env, rng, cap)
        except Exception as ex:
            out["errors"].append(f"candidate generation {opname}: {type(ex).__name__}: {ex}")
            continue
        n_acc = 0
        for args in cands:
            if time.time() - t_start > budget_s:
                out["stats"]["budget_exhausted"] = True
                break
            if n_acc >= cap:
                break
            n_attempt += 1
            rec = {"op": opname, "args": short_args(args), "enc": None}
            try:
                rec["enc"] = [enc_arg(a) for a in args]
            except Exception:
                pass
            try:
                _one_instance(ctx, p, op, opname, args, props, live, rec, env, bounds, rng, tier)
            except (Unsupported, TooBig) as ex:
                rec["status"] = "skipped"
                rec["why"] = f"{type(ex).__name__}: {ex}"
            except Exception as ex:
                rec["status"] = "harness_error"
                rec["why"] = f"{type(ex).__name__}: {ex}"
                rec["tb"] = traceback.format_exc()[-1500:]
            rec.pop("_q_obj", None)
            rec.pop("_trace", None)
            if rec.get("status") == "accepted":
                n_acc += 1
            out["instances"].append(rec)
            if rec.get("c07_violation"):
                corrupted = True
                globals()["_DIRTY"] = True
                break
        if corrupted:
            # an operation changed the source procedure itself: everything after this point would be judged
            # against a different program, so the job for this seed ends here
            out["stats"]["stopped_after_impurity"] = True
            break
    if job.get("composites") and not corrupted:
        from .composites import composite_ops, composite_candidates

        cops = composite_ops()
        for opname in sorted(cops):
            if only and opname not in only:
                continue
            fn = cops[opname][0]
            for args in composite_candidates(p, opname, env, rng, job.get("composite_cap", cap)):
                if time.time() - t_start > budget_s:
                    out["stats"]["budget_exhausted"] = True
                    break
                n_attempt += 1
                rec = {"op": opname, "args": short_args(args), "enc": None}
                try:
                    rec["enc"] = [enc_arg(a) for a in args]
                except Exception:
                    pass
                try:
                    _one_instance(ctx, p, fn, opname, args, props, live, rec, env, bounds, rng, tier)
                except (Unsupported, TooBig) as ex:
                    rec["status"] = "skipped"
                    rec["why"] = f"{type(ex).__name__}: {ex}"
                except Exception as ex:
                    rec["status"] = "harness_error"
                    rec["why"] = f"{type(ex).__name__}: {ex}"
                    rec["tb"] = traceback.format_exc()[-1500:]
                trace = rec.pop("_trace", None)
                q_obj = rec.pop("_q_obj", None)
                if trace is not None:
                    rec["primitive_steps"] = len(trace.steps)
                if trace is not None and q_obj is not None and _has_violation(rec):
                    try:
                        extra = expand_composite(p, q_obj, trace, rec, job, props, live, env, bounds, rng, tier, ctx)
                    except Exception as ex:
                        extra = []
                        rec["localise_error"] = f"{type(ex).__name__}: {ex}"
                    if any(_has_violation(e) for e in extra):
                        # reported through the primitive step(s); the composite record keeps only the pointer
                        rec["localised_to"] = [f"{e['op']}{e['args']}" for e in extra if _has_violation(e)]
                        for k in VIOL_KEYS:
                            rec.pop(k, None)
                        if rec.get("c01") == "differ":
                            rec["c01"] = "differ_localised"
                        if rec.get("c05_inline") == "differ":
                            rec["c05_inline"] = "differ_localised"
                        if rec.get("c17") in ("mismatch", "reparse_failed"):
                            rec["c17"] = "localised"
                        if rec.get("c04_compile") not in (None, "ok"):
                            rec["c04_p_compiles"] = False
                    out["instances"].extend(extra)
                out["instances"].append(rec)
    if job.get("grid") and not corrupted:
        from .tight_sched import grid as _grid

        seen_q = set()
        for opname, args in _grid(p, env, quick=(tier == "quick")):
            if only and opname not in only:
                continue
            if opname not in ops:
                continue
            if time.time() - t_start > budget_s:
                out["stats"]["budget_exhausted"] = True
                break
            n_attempt += 1
            rec = {"op": opname, "args": short_args(args), "enc": None, "grid": True}
            try:
                rec["enc"] = [enc_arg(a) for a in args]
            except Exception:
                pass
            try:
                _one_instance(ctx, p, ops[opname], opname, args, props, live, rec, env, bounds, rng, tier)
            except (Unsupported, TooBig) as ex:
                rec["status"] = "skipped"
                rec["why"] = f"{type(ex).__name__}: {ex}"
            except Exception as ex:
                rec["status"] = "harness_error"
                rec["why"] = f"{type(ex).__name__}: {ex}"
                rec["tb"] = traceback.format_exc()[-1500:]
            rec.pop("_q_obj", None)
            rec.pop("_trace", None)
            out["instances"].append(rec)
    out["stats"]["attempts"] = n_attempt
    out["stats"]["queries"] = ctx.queries
    out["stats"]["solver_s"] = round(ctx.solver_s, 3)
    out["stats"]["wall_s"] = round(time.time() - t_start, 2)
    return out


def _one_instance(ctx: ProcCtx, p, op, opname, args, props, live, rec, env, bounds, rng, tier, force_ub=False):
    p_ir = p._loopir_proc
    if "C07" in props:
        # procedures alive before the call that the call can reach: the source, the procedures passed as
        # arguments, the callees of the source (plus a rotating few of the other corpus sub-procedures)
        argp = [a for a in args if isinstance(a, Procedure)] + [x for a in args if isinstance(a, list) for x in a if isinstance(x, Procedure)]
        callee_names = _callee_names(p_ir)
        rest = [lp for lp in live if lp is not p and lp not in argp]
        near = [lp for lp in rest if lp.name() in callee_names]
        far = [lp for lp in rest if lp.name() not in callee_names]
        k0 = rng.randrange(len(far)) if far else 0
        live = [p] + argp + near + (far[k0 : k0 + 3] if far else [])
    snap = LiveSet(live) if "C07" in props else None
    # cursors created before the call (C07: still denote the same nodes)
    pre_cursors = None
    if "C07" in props:
        pre_cursors = []
        for s in SE.stmt_cursors(p)[:6]:
            try:
                pre_cursors.append((s, s._impl._node))
            except Exception:
                pass
    t0 = time.time()
    trace = None
    if opname.startswith("std."):
        with AtomicTrace() as trace:
            q, ex, raw = apply_op(op, p, list(args))
        rec["_trace"] = trace
    else:
        q, ex, raw = apply_op(op, p, list(args))
    rec["op_s"] = round(time.time() - t0, 3)
    if ex is not None:
        rec["status"] = "op_timeout" if isinstance(ex, OpTimeout) else "rejected"
        rec["exc"] = type(ex).__name__
    else:
        rec["status"] = "accepted" if q is not None else "noproc"
    # ---- C07: purity, also after rejected calls --------------------------
    if snap is not None:
        ch = snap.changed()
        rec["c07_live"] = len(live)
        bad = []
        for k in ch:
            lp = live[k]
            # decide with the solver whether behaviour changed
            if lp is p:
                try:
                    r_again = ctx.symbolic_run(lp._loopir_proc, tag="p_")
                    v = ctx.compare(lp._loopir_proc, r2=r_again, assume_safe_p=False)
                    beh, det = v.status, v.detail
                except (Unsupported, TooBig, L.IllFormed) as exc:
                    # the existing procedure has been damaged so badly that it has no meaning any more
                    beh, det = "not-encodable", f"{type(exc).__name__}: {exc}"
                bad.append({"proc": lp.name(), "text_changed": str(lp) != snap.txt[k], "behaviour": beh, "detail": det, "before": snap.txt[k], "after": str(lp)})
            else:
                bad.append({"proc": lp.name(), "text_changed": str(lp) != snap.txt[k], "behaviour": "not-encoded", "before": snap.txt[k], "after": str(lp)})
        for c, node in pre_cursors or []:
            try:
                if c._impl._node is not node:
                    bad.append({"proc": p.name(), "cursor_changed": str(c)})
            except Exception as e2:
                bad.append({"proc": p.name(), "cursor_invalid": repr(e2)})
        # thorough: always re-encode the source and pose the query (solver_equal vs trivially_equal)
        if not ch and (tier == "thorough" or rng.random() < 0.1):
            r_again = ctx.symbolic_run(p_ir, tag="p_")
            v = ctx.compare(p_ir, r2=r_again, assume_safe_p=False)
            rec["c07_requery"] = v.status + ("/trivial" if v.trivially_equal else "/solver")
            if v.status == "differ":
                bad.append({"proc": p.name(), "behaviour": "differ", "detail": v.detail})
        if bad:
            rec["c07_violation"] = bad
    if q is None:
        return
    rec["_q_obj"] = q
    q_ir = q._loopir_proc
    rec["q_src"] = str(q)
    if "C17" in props:
        c17_check(q, bounds, rec, tier, rng)
    if "C06" in props:
        c06_check(p, q, rec, ["divide_loop", "reorder_loops", "unroll_loop", "lift_scope", "split_write"] if tier == "thorough" else rng.sample(["divide_loop", "reorder_loops", "unroll_loop", "lift_scope", "split_write"], 2), env, rng, n_direct=8 if tier == "thorough" else 3)
    is_eqv, ign = ignore_cfg_of(p_ir, q_ir)
    rec["reported_cfg"] = sorted(f"{a}.{b}" for a, b in ign)
    rec["tracked_eqv"] = bool(is_eqv)
    need_run = bool(props & {"C01", "C04", "C10", "C05"})
    r2 = None
    if need_run and is_eqv:
        try:
            r2 = ctx.symbolic_run(q_ir, tag="q_")
            rec["q_stmts"] = r2.nstmts
        except L.IllFormed as ill:
            # the derived procedure has no meaning at all: reported under C04 (well-formedness)
            rec["illformed"] = str(ill)
            if "C04" in props:
                rec["c04_wf"] = check_wellformed(q_ir)[:5] or [str(ill)]
            return
    # ---- C01 / C10 --------------------------------------------------------
    if (props & {"C01", "C10", "C05"}) and is_eqv:
        v = ctx.compare(q_ir, ignore_cfg=ign, r2=r2)
        rec["c01"] = v.status
        rec["c01_tier"] = v.tier
        rec["c01_trivial"] = v.trivially_equal
        rec["c01_queries"] = v.queries
        rec["c01_solver_s"] = round(v.solver_s, 3)
        if v.status != "equal":
            rec["c01_label"] = v.label
            rec["c01_detail"] = v.detail
        if v.status == "differ":
            rec["c01_cex"] = cex_to_json(v.cex)
    # ---- C10: call_eqv only substitutes a callee of the same origin ------------------
    if "C10" in props and opname == "call_eqv":
        try:
            old = args[0]._impl._node.f.name
            new = args[1].name()
            oo, no = env["ORIGIN"].get(str(old)), env["ORIGIN"].get(str(new))
            rec["c10_origins"] = [oo, no]
            if oo is not None and no is not None and oo != no:
                rec["c10_origin_mismatch"] = f"call to {old} (origin {oo}) replaced by {new} (origin {no})"
        except Exception as ex2:
            rec["c10_origin_err"] = repr(ex2)
    # ---- C05: inlining the inserted call gives back an equivalent program ------------
    if "C05" in props and opname == "replace" and is_eqv:
        try:
            from exo.stdlib.scheduling import inline as _inline

            old_nodes = {id(c._impl._node) for c in SE.stmt_cursors(p)}
            calls = [c for c in SE.stmt_cursors(q) if isinstance(c, PC.CallCursor) and id(c._impl._node) not in old_nodes]
            rec["c05_new_calls"] = len(calls)
            if calls:
                back, exb, _ = apply_op(_inline, q, [calls[0]])
                if back is None:
                    rec["c05_inline"] = f"inline raised {type(exb).__name__}"
                else:
                    vb = ctx.compare(back._loopir_proc, ignore_cfg=ign)
                    rec["c05_inline"] = vb.status
                    if vb.status != "equal":
                        rec["c05_inline_detail"] = vb.detail
                        rec["c05_inline_src"] = str(back)
                    if vb.cex:
                        rec["c05_inline_cex"] = cex_to_json(vb.cex)
        except (Unsupported, TooBig, L.IllFormed) as ex2:
            rec["c05_inline"] = f"skipped: {ex2}"
    # ---- C04 -------------------------------------------------------------
    if "C04" in props or "C05" in props:
        probs = check_wellformed(q_ir)
        if probs:
            rec["c04_wf"] = probs[:5]
        if is_eqv and r2 is not None:
            viol, inconc, nobl = ctx.check_obligations(q_ir, r2)
            rec["c04_obls"] = nobl
            rec["c04_inconclusive"] = inconc
            found = []
            for o, cex in viol:
                # replay: original clean, derived violates
                try:
                    conc_run(p_ir, cex)
                    p_ok = True
                except ConcViolation:
                    p_ok = False
                except (Unsupported, TooBig):
                    p_ok = None
                q_bad = None
                try:
                    conc_run(q_ir, cex, check_preds=False)
                    q_bad = False
                except ConcViolation as cv:
                    q_bad = True
                    qdesc = str(cv)
                except (Unsupported, TooBig):
                    q_bad = None
                if p_ok and q_bad:
                    found.append({"kind": o.kind, "where": o.where, "replay": qdesc, "cex": cex_to_json(cex)})
                elif p_ok is None or q_bad is None:
                    rec["c04_inconclusive"] = rec.get("c04_inconclusive", 0) + 1
                else:
                    rec.setdefault("c04_unreproduced", []).append({"kind": o.kind, "where": o.where, "p_ok": p_ok, "q_bad": q_bad})
            # the same obligations over unbounded sizes with summarised loops (all of thorough, a sample of quick)
            if not found and (tier == "thorough" or force_ub or rng.random() < 0.1):
                try:
                    cu = getattr(ctx, "_ub_ctx", None)
                    if cu is None:
                        cu = ProcCtx(p_ir, Bounds(unbounded=True, stmt_budget=4000), timeout_ms=8000, tag="u")
                        ctx._ub_ctx = cu
                    ru = cu.symbolic_run(q_ir, tag=f"uq{cu.queries}_")
                    violu, inconcu, noblu = cu.check_obligations(q_ir, ru)
                    rec["c04_unbounded"] = "holds" if not violu and not inconcu else "inconclusive"
                    for o, cex in violu:
                        try:
                            conc_run(p_ir, cex)
                        except (ConcViolation, Unsupported, TooBig, ZeroDivisionError, RecursionError):
                            continue
                        try:
                            conc_run(q_ir, cex, check_preds=False)
                        except ConcViolation as cv:
                            found.append({"kind": o.kind, "where": o.where, "replay": str(cv) + " (found by the unbounded variant)", "cex": cex_to_json(cex)})
                            rec["c04_unbounded"] = "violated"
                            break
                        except (Unsupported, TooBig, ZeroDivisionError, RecursionError):
                            continue
                except (Unsupported, TooBig, L.IllFormed) as exu:
                    rec["c04_unbounded"] = "skipped"
            if found:
                rec["c04_obl_violation"] = found
        # (d) compiles or is rejected by a documented backend check
        if rng.random() < (1.0 if tier == "thorough" else 0.5):
            try:
                with_watchdog(q.c_code_str)
                rec["c04_compile"] = "ok"
            except BaseException as cex_:  # noqa
                if isinstance(cex_, (KeyboardInterrupt, SystemExit)):
                    raise
                if isinstance(cex_, OpTimeout):
                    rec["c04_compile"] = None
                    return
                nm = type(cex_).__name__
                rec["c04_compile"] = nm
                # does the original compile?
                try:
                    p.c_code_str()
                    p_compiles = True
                except BaseException:
                    p_compiles = False
                rec["c04_p_compiles"] = p_compiles
                rec["c04_compile_msg"] = str(cex_)[:300]


VIOL_KEYS = ("c01_cex", "c04_wf", "c04_obl_violation", "c06_problems", "c07_violation", "c10_origin_mismatch", "illformed")


def _has_violation(rec):
    if rec.get("c01") == "differ" or rec.get("c05_inline") == "differ":
        return True
    if rec.get("c17") in ("mismatch", "reparse_failed"):
        return True
    cc = rec.get("c04_compile")
    if cc and cc != "ok" and rec.get("c04_p_compiles") and cc not in ("MemGenError", "ConfigError", "TypeError", "ParallelAnalysisError"):
        return True
    return any(rec.get(k) for k in ("c04_wf", "c04_obl_violation", "c06_problems", "c07_violation", "illformed"))


def expand_composite(p, q, trace, crec, job, props, live, env, bounds, rng, tier, ctx0):
    """A composite schedule violated something: re-check each primitive step p_k -> p_{k+1} it performed
    as an ordinary sweep instance whose chain is the prefix of steps.  Returns the instance records."""
    steps = trace.path(p, q)
    if not steps:
        crec["localise"] = "no primitive path from the source to the result"
        return []
    ops = SE.all_ops()
    chain0 = list(job.get("chain") or [])
    out = []
    cur = p
    prefix = []
    for k, st in enumerate(steps):
        if st["proc"] is not cur:
            crec["localise"] = "trace is not a simple chain"
            break
        op = ops.get(st["op"])
        if op is None:
            crec["localise"] = f"step {k}: {st['op']} is not a swept primitive"
            break
        try:
            args = [_forward_raw(a, cur) for a in st["raw"]]
            enc = [enc_arg(a) for a in args]
        except Exception as ex:
            crec["localise"] = f"step {k}: arguments not encodable ({type(ex).__name__})"
            break
        if any(e.get("k") in ("?", "cursor?") for e in _flat_enc(enc)):
            crec["localise"] = f"step {k}: arguments not encodable"
            break
        rec = {"op": st["op"], "args": short_args(args), "enc": enc, "chain_override": chain0 + list(prefix), "from_composite": f"{crec['op']}{crec['args']}", "p_src_override": str(cur)}
        try:
            ctx = ctx0 if cur is p else ProcCtx(cur._loopir_proc, bounds, timeout_ms=job.get("timeout_ms", 30000))
            if cur is not p:
                if not ctx.assumptions_sat():
                    raise Unsupported("assumptions unsatisfiable")
                ctx._pop()
            _one_instance(ctx, cur, op, st["op"], args, props, [cur], rec, env, bounds, rng, tier, force_ub=bool(crec.get("c04_unbounded") == "violated"))
        except (Unsupported, TooBig, L.IllFormed) as ex:
            rec["status"] = "skipped"
            rec["why"] = f"{type(ex).__name__}: {ex}"
        except Exception as ex:
            rec["status"] = "harness_error"
            rec["why"] = f"{type(ex).__name__}: {ex}"
        nxt = rec.pop("_q_obj", None)
        rec.pop("_trace", None)
        out.append(rec)
        if nxt is None or str(nxt) != str(st["out"]):
            crec["localise"] = f"step {k}: re-applying {st['op']} does not reproduce the traced result"
            break
        prefix.append({"op": st["op"], "args": enc})
        # continue on the *traced* procedure: later raw arguments hold cursors of that lineage
        cur = st["out"]
    return out


def _flat_enc(enc):
    for e in enc:
        yield e
        if e.get("k") == "list":
            yield from _flat_enc(e["items"])


def c17_check(q, bounds, rec, tier, rng, force_solver=False):
    """print -> parse -> compare (C17)"""
    from .reparse import reparse, alpha_mismatch, ReparseError

    q_ir = q._loopir_proc
    if check_wellformed(q_ir):
        rec["c17"] = "skipped_illformed"  # not a procedure: C04's finding, nothing to print faithfully
        return
    try:
        q2 = reparse(q)
    except ReparseError as ex:
        msg = str(ex)
        if msg.startswith("ParseError") or msg.startswith("SyntaxError") or msg.startswith("NameError"):
            rec["c17"] = "reparse_failed"
        else:
            # the text parses but the front end's type/bounds/effect checks refuse the
            # (scheduled) program: stricter acceptance, not a printing fault
            rec["c17"] = "frontend_rejects"
        rec["c17_detail"] = msg
        return
    q2_ir = q2._loopir_proc
    mis = alpha_mismatch(q_ir, q2_ir)
    rec["c17_alpha"] = mis
    rec["c17_text_equal"] = str(q2) == str(q)
    if mis is not None or force_solver or tier == "thorough" or rng.random() < 0.2:
        try:
            cq = ProcCtx(q_ir, bounds, timeout_ms=20000, tag="r")
            v = cq.compare(q2_ir)
            rec["c17_behaviour"] = v.status
            rec["c17_queries"] = v.queries
            rec["c17_trivial"] = v.trivially_equal
            if v.status != "equal":
                rec["c17_detail"] = v.detail
            if v.cex:
                rec["c17_cex"] = cex_to_json(v.cex)
        except (Unsupported, TooBig, L.IllFormed) as ex:
            rec["c17_behaviour"] = "skipped"
            rec["c17_detail"] = f"{type(ex).__name__}: {ex}"
    rec["c17"] = "ok" if (mis is None and rec["c17_text_equal"] and rec.get("c17_behaviour", "equal") in ("equal", "skipped")) else "mismatch"
    if rec["c17"] == "mismatch":
        rec["c17_reparsed"] = str(q2)


def _leaf_kinds():
    from exo.core.LoopIR import LoopIR

    return (LoopIR.Assign, LoopIR.Reduce, LoopIR.Call, LoopIR.WriteConfig, LoopIR.Alloc, LoopIR.WindowStmt, LoopIR.Pass)


def _src_tag(node):
    si = node.srcinfo
    return (getattr(si, "filename", None), getattr(si, "lineno", None), getattr(si, "col_offset", None))


def c06_check(p, q, rec, second_ops, env, rng, n_direct=8):
    """forward every statement / block / gap cursor of p to q (C06 layer 2)"""
    from exo.core.LoopIR import LoopIR
    from exo.core.internal_cursors import InvalidCursorError

    leaf = _leaf_kinds()
    problems = []
    n_fwd = n_inv = 0
    stmts = SE.stmt_cursors(p)
    fwd_ok = {}
    for c in stmts:
        node = c._impl._node
        try:
            f = q.forward(c)
            fnode = f._impl._node
        except InvalidCursorError:
            n_inv += 1
            continue
        except NotImplementedError:
            rec["c06"] = "no_forwarding"
            return
        except Exception as ex:
            problems.append({"cursor": SE.describe_arg(c), "problem": f"forwarding raised {type(ex).__name__}: {str(ex)[:120]}"})
            continue
        n_fwd += 1
        fwd_ok[id(node)] = f
        if f._impl._root is not q._loopir_proc:
            problems.append({"cursor": SE.describe_arg(c), "problem": "the forwarded statement cursor is not a cursor into the derived procedure (its root is another tree)"})
        # never dangling: the forwarded path must resolve inside q's tree
        if isinstance(node, leaf):
            if type(fnode) is not type(node) and not (isinstance(node, (LoopIR.Assign, LoopIR.Reduce)) and isinstance(fnode, (LoopIR.Assign, LoopIR.Reduce))):
                problems.append({"cursor": SE.describe_arg(c), "problem": f"a {type(node).__name__} statement `{str(node).strip()[:60]}` is forwarded to a {type(fnode).__name__} `{str(fnode).strip()[:60]}`"})
            elif _src_tag(fnode) != _src_tag(node) and _src_tag(node)[1] is not None:
                problems.append({"cursor": SE.describe_arg(c), "problem": f"statement `{str(node).strip()[:60]}` (line {_src_tag(node)[1]}) is forwarded to a different statement `{str(fnode).strip()[:60]}` (line {_src_tag(fnode)[1]})"})
        elif isinstance(node, (LoopIR.For, LoopIR.If)):
            if not isinstance(fnode, LoopIR.stmt):
                problems.append({"cursor": SE.describe_arg(c), "problem": f"a {type(node).__name__} is forwarded to a non-statement {type(fnode).__name__}"})
    # gaps: the anchor of a forwarded gap is the forwarded anchor
    for g in SE.gap_cursors(p)[:40]:
        try:
            fg = q.forward(g)
            _ = fg._impl._anchor._node
            n_fwd += 1
            if fg._impl._root is not q._loopir_proc or fg._impl._anchor._root is not q._loopir_proc:
                problems.append({"cursor": SE.describe_arg(g), "problem": "the forwarded gap cursor is not a cursor into the derived procedure (its root or its anchor's root is another tree)"})
            # the gap keeps its side of its anchor statement when that statement is carried over unchanged
            a_old = g._impl._anchor
            try:
                fa = q.forward(PC.lift_cursor(a_old, p))
                if fa._impl._node is a_old._node and (fg._impl._anchor._node is not a_old._node or fg._impl._type != g._impl._type):
                    problems.append({"cursor": SE.describe_arg(g), "problem": f"gap {g._impl._type.name} `{str(a_old._node).strip()[:50]}` is forwarded to {fg._impl._type.name} `{str(fg._impl._anchor._node).strip()[:50]}` although the anchor statement was carried over unchanged"})
            except Exception:
                pass
        except InvalidCursorError:
            n_inv += 1
        except NotImplementedError:
            break
        except Exception as ex:
            problems.append({"cursor": SE.describe_arg(g), "problem": f"gap forwarding raised {type(ex).__name__}: {str(ex)[:120]}"})
    # blocks: a forwarded block contains the forwarded statements, in order
    for b in SE.block_cursors(p)[:60]:
        if len(b) < 2:
            continue
        try:
            fb = q.forward(b)
            nodes = [c._impl._node for c in fb]
            n_fwd += 1
            if fb._impl._root is not q._loopir_proc or fb._impl._anchor._root is not q._loopir_proc:
                problems.append({"cursor": SE.describe_arg(b), "problem": "the forwarded block cursor is not a cursor into the derived procedure (its root or its anchor's root is another tree)"})
        except InvalidCursorError:
            n_inv += 1
            continue
        except NotImplementedError:
            break
        except Exception as ex:
            problems.append({"cursor": SE.describe_arg(b), "problem": f"block forwarding raised {type(ex).__name__}: {str(ex)[:120]}"})
            continue
        want = []
        for c in b:
            f = fwd_ok.get(id(c._impl._node))
            if f is not None:
                want.append(f._impl._node)
        for wn in want:
            if not any(_contains(nd, wn) for nd in nodes):
                problems.append({"cursor": SE.describe_arg(b), "problem": f"forwarded block does not contain the forwarded statement `{str(wn).strip()[:60]}`"})
                break
    rec["c06_forwarded"] = n_fwd
    rec["c06_invalid"] = n_inv
    # cursors handed directly to an operation behave as if forwarded explicitly first
    ops = SE.all_ops()
    n_cmp = 0
    for opname in second_ops:
        if opname not in ops:
            continue
        for c in (stmts[:n_direct] if n_direct >= len(stmts) else rng.sample(stmts, n_direct)):
            try:
                fc = q.forward(c)
            except Exception:
                continue
            extra = {"divide_loop": [2, ["fo", "fi"]], "reorder_loops": [], "unroll_loop": [], "lift_scope": [], "parallelize_loop": [], "inline_assign": [], "delete_pass": None, "split_write": []}.get(opname)
            if extra is None:
                continue
            r1, e1, _ = apply_op(ops[opname], q, [c] + list(extra))
            r2, e2, _ = apply_op(ops[opname], q, [fc] + list(extra))
            if isinstance(e1, OpTimeout) or isinstance(e2, OpTimeout):
                continue  # Exo's own analysis was interrupted by the watchdog: nothing to compare
            n_cmp += 1
            s1 = str(r1) if r1 is not None else "raise"
            s2 = str(r2) if r2 is not None else "raise"
            if s1 != s2:
                problems.append({"cursor": SE.describe_arg(c), "problem": f"{opname} with the un-forwarded cursor gives a different result than with the explicitly forwarded one", "a": s1[:300], "b": s2[:300]})
    rec["c06_direct_vs_forwarded"] = n_cmp
    if problems:
        rec["c06_problems"] = problems[:5]
    rec["c06"] = "bad" if problems else "ok"


def _contains(node, target):
    from exo.core.LoopIR import LoopIR

    if node is target:
        return True
    for attr in ("body", "orelse"):
        for ch in getattr(node, attr, []) or []:
            if _contains(ch, target):
                return True
    return False


def strip(rec):
    rec.pop("_q", None)
    return rec
