"""Tight families: systematically generated Exo sources that sit exactly on the
boundary of what a checker of the real system must accept / reject.

Each family is a small grid (operator x branch x constant x offset ...).  Every
text is handed to the real front end (or, for the parallel family, to the real
backend); whatever is ACCEPTED is then model-checked with loopsym + z3 for all
inputs within the bound.  A checker that is off by one on a boundary (a wrong
complement of a comparison for the else-branch, a window offset dropped when
windows are composed, an alias resolved one level only, a dependence through a
configuration field ignored, ...) accepts a grid point whose twin one step
further is unsafe, and the model checker then returns the input.

Nothing here is random; the grids are stated in the evidence file.
"""
from __future__ import annotations

import itertools

HDR = "@proc\n"


def _p(name, sig, body_lines):
    return name, HDR + f"def {name}({sig}):\n" + "\n".join("    " + l for l in body_lines) + "\n"


# ---------------------------------------------------------------------------
# C03: guards


def guards():
    """accesses under every comparison operator, in the then- and in the else-branch, with
    offsets around the tight one; constants and symbolic sizes"""
    out = []
    k = 0
    ops = ["<", "<=", ">", ">=", "=="]
    for op, c, branch, d in itertools.product(ops, (3, 4), ("then", "else"), (-5, -4, -3, -1, 0, 1)):
        k += 1
        acc = f"y[i + {d}] = x[i]" if d >= 0 else f"y[i - {-d}] = x[i]"
        if branch == "then":
            body = ["for i in seq(0, 8):", f"    if i {op} {c}:", f"        {acc}"]
        else:
            body = ["for i in seq(0, 8):", f"    if i {op} {c}:", "        pass", "    else:", f"        {acc}"]
        out.append(_p(f"tg{k}", "x: f32[8], y: f32[4]", body))
    # compound conditions
    conds = ["i > 1 and i < 6", "i >= 2 and i <= 5", "i < 2 or i > 5", "i <= 1 or i >= 6", "i > 1 and 6 > i", "2 > i or i > 5"]
    for cnd, branch, d in itertools.product(conds, ("then", "else"), (-3, -2, -1, 0, 1)):
        k += 1
        acc = f"y[i + {d}] = x[i]" if d >= 0 else f"y[i - {-d}] = x[i]"
        if branch == "then":
            body = ["for i in seq(0, 8):", f"    if {cnd}:", f"        {acc}"]
        else:
            body = ["for i in seq(0, 8):", f"    if {cnd}:", "        pass", "    else:", f"        {acc}"]
        out.append(_p(f"tg{k}", "x: f32[8], y: f32[4]", body))
    # symbolic sizes: the loop overshoots the buffer by one and a guard has to cut it off
    sym = ["i < n", "i <= n - 1", "n > i", "n - 1 >= i"]
    for cnd, d in itertools.product(sym, (-1, 0, 1)):
        k += 1
        acc = f"y[i + {d}] = 1.0" if d >= 0 else f"y[i - {-d}] = 1.0"
        out.append(_p(f"tg{k}", "n: size, y: f32[n]", ["for i in seq(0, n + 1):", f"    if {cnd}:", f"        {acc}"]))
    symneg = ["i >= n", "i > n - 1", "n <= i", "i == n"]
    for cnd, d in itertools.product(symneg, (-1, 0, 1)):
        k += 1
        acc = f"y[i + {d}] = 1.0" if d >= 0 else f"y[i - {-d}] = 1.0"
        out.append(_p(f"tg{k}", "n: size, y: f32[n]", ["for i in seq(0, n + 1):", f"    if {cnd}:", "        pass", "    else:", f"        {acc}"]))
    # nested guards: the inner else-branch sees the outer condition and the negated inner one
    for op, d in itertools.product(["<", "<=", ">", ">="], (-1, 0, 1)):
        k += 1
        acc = f"y[i + {d}] = 1.0" if d >= 0 else f"y[i - {-d}] = 1.0"
        out.append(_p(f"tg{k}", "y: f32[4]", ["for i in seq(0, 8):", "    if i < 5:", f"        if i {op} 3:", "            pass", "        else:", f"            {acc}"]))
    return out


# ---------------------------------------------------------------------------
# C03: windows (composition of offsets through one, two and three levels; call arguments)

WIN_PRE = [
    "@proc",
    "def tw_fill4(w: [f32][4]):",
    "    for i in seq(0, 4):",
    "        w[i] = 1.0",
    "@proc",
    "def tw_fill22(w: [f32][2, 2]):",
    "    for i in seq(0, 2):",
    "        for j in seq(0, 2):",
    "            w[i, j] = 1.0",
    "@proc",
    "def tw_acc(dst: [f32][4], src: [f32][4]):",
    "    for i in seq(0, 4):",
    "        dst[i] += src[i]",
]


def _with_pre(name, sig, body):
    src = "\n".join(WIN_PRE) + "\n" + HDR + f"def {name}({sig}):\n" + "\n".join("    " + l for l in body) + "\n"
    return name, src


def windows():
    out = []
    k = 0
    # the callee writes 4 cells of a window passed as an expression at the very end of x
    for d in (-1, 0, 1):
        k += 1
        out.append(_with_pre(f"tw{k}", "x: f32[12, 8]", [f"tw_fill4(x[11, {4 + d}:{8 + d}])"]))
        k += 1
        out.append(_with_pre(f"tw{k}", "x: f32[12, 8]", [f"tw_fill4(x[{8 + d}:{12 + d}, 7])"]))
    # window of a window of x (non-zero offsets at every level), then a call on a sub-window
    for d in (-1, 0, 1):
        k += 1
        out.append(_with_pre(f"tw{k}", "x: f32[12, 8]", ["w = x[8:12, 4:8]", f"tw_fill4(w[3, {d}:{4 + d}])"]))
        k += 1
        out.append(_with_pre(f"tw{k}", "x: f32[12, 8]", ["w = x[8:12, 4:8]", f"tw_fill4(w[{d}:{4 + d}, 3])"]))
        k += 1
        out.append(_with_pre(f"tw{k}", "x: f32[12, 8]", ["w = x[4:12, 2:8]", "v = w[4:8, 2:6]", f"tw_fill4(v[3, {d}:{4 + d}])"]))
        k += 1
        out.append(_with_pre(f"tw{k}", "x: f32[12, 8]", ["w = x[4:12, 2:8]", "v = w[7, 2:6]", f"tw_fill4(v[{d}:{4 + d}])"]))
        k += 1
        out.append(_with_pre(f"tw{k}", "x: f32[12, 8]", ["w = x[4:12, 2:8]", "v = w[4:8, 2:6]", "u = v[2:4, 2:4]", f"tw_fill22(u[{d}:{2 + d}, 0:2])"]))
        k += 1
        out.append(_with_pre(f"tw{k}", "x: f32[12, 8]", ["w = x[4:12, 2:8]", "v = w[4:8, 2:6]", "u = v[2:4, 2:4]", f"tw_fill22(u[0:2, {d}:{2 + d}])"]))
    # inside a loop, the window moves with the iterator
    for d in (-1, 0, 1):
        k += 1
        out.append(_with_pre(f"tw{k}", "x: f32[12, 8]", ["w = x[8:12, 0:8]", "for i in seq(0, 4):", f"    tw_fill4(w[i + {d}, 4:8])" if d >= 0 else f"    tw_fill4(w[i - {-d}, 4:8])"]))
        k += 1
        out.append(_with_pre(f"tw{k}", "n: size, x: f32[n + 4, 8]", ["w = x[n:n + 4, 4:8]", "for i in seq(0, 4):", f"    tw_fill4(w[i, {d}:{4 + d}])"]))
    return out


# ---------------------------------------------------------------------------
# C03: one buffer passed to two arguments of a call, through aliases of every depth


def aliasing():
    out = []
    k = 0
    views = {
        "A": ["A[2:6]", "A[4:8]"],
        "w": ["w[2:6]", "w[0:4]"],  # w = A[0:8]
        "v": ["v", "v[0:4]"],  # v = w[2:6] = A[2:6]
        "u": ["u[0:4]"],  # u = v[0:4] = A[2:6]
    }
    allv = [e for vs in views.values() for e in vs]
    for a, b in itertools.permutations(allv, 2):
        k += 1
        out.append(_with_pre(f"ta{k}", "A: f32[16]", ["w = A[0:8]", "v = w[2:6]", "u = v[0:4]", f"tw_acc({a}, {b})"]))
    # two distinct buffers: must be accepted (keeps the family from being all-reject)
    k += 1
    out.append(_with_pre(f"ta{k}", "A: f32[16], B: f32[16]", ["w = A[0:8]", "v = w[2:6]", "tw_acc(v, B[2:6])"]))
    return out


# ---------------------------------------------------------------------------
# C03: loops, call sizes, callee assertions


def calls_and_loops():
    out = []
    k = 0
    pre = [
        "@proc",
        "def tc_fill(n: size, w: [f32][n]):",
        "    assert n > 1",
        "    for i in seq(0, n):",
        "        w[i] = 1.0",
    ]

    def mk(name, sig, body):
        return name, "\n".join(pre) + "\n" + HDR + f"def {name}({sig}):\n" + "\n".join("    " + l for l in body) + "\n"

    # size argument / assertion / shape, each one step around the boundary
    for e, win in itertools.product(["n", "n - 1", "n + 1", "n - 2"], ["x[0:{e}]", "x[1:{e} + 1]", "x[0:{e} - 1]"]):
        k += 1
        out.append(mk(f"tc{k}", "n: size, x: f32[n]", ["assert n > 2", f"tc_fill({e}, {win.format(e=e)})"]))
    for lo, hi in itertools.product(["0", "1", "n", "n - 1", "n + 1"], ["n", "n - 1", "1", "0"]):
        k += 1
        out.append(mk(f"tc{k}", "n: size, x: f32[n]", [f"for i in seq({lo}, {hi}):", "    x[i] = 0.0"]))
    # guard by assertion on an index argument
    for a, d in itertools.product(["k >= 0 and k < n", "k > 0 and k <= n", "k >= 0 and k <= n - 1", "0 <= k and n > k"], (-1, 0, 1)):
        k += 1
        acc = f"x[k + {d}] = 1.0" if d >= 0 else f"x[k - {-d}] = 1.0"
        out.append(mk(f"tc{k}", "n: size, k: index, x: f32[n]", [f"assert {a}", acc]))
    return out


def c03_family():
    return {"guards": guards(), "windows": windows(), "aliasing": aliasing(), "calls_and_loops": calls_and_loops()}


# ---------------------------------------------------------------------------
# C09: parallel loops.  Every program is handed to the real backend; the ones that COMPILE are
# model-checked for conflicting accesses between two iterations.

PAR_PRE = [
    "@proc",
    "def tp_row(dst: [f32][8], src: [f32][8]):",
    "    for j in seq(0, 8):",
    "        dst[j] = src[j] + 1.0",
    "@proc",
    "def tp_set(dst: [f32][8]):",
    "    for j in seq(0, 8):",
    "        dst[j] = 1.0",
    "@proc",
    "def tp_setv(dst: [f32][8], v: f32):",
    "    for j in seq(0, 8):",
    "        dst[j] = v",
]


def _par(name, sig, body, extra_pre=()):
    src = "\n".join(list(extra_pre) + PAR_PRE) + "\n" + HDR + f"def {name}({sig}):\n" + "\n".join("    " + l for l in body) + "\n"
    return name, src


def par_family():
    out = []
    k = 0
    # direct accesses: iteration i writes a*i+b and reads c*i+d
    for (a, b), (c, d) in itertools.product([(1, 0), (1, 1), (2, 0), (2, 1)], [(1, 0), (1, 1), (2, 0), (2, 1), (0, 0)]):
        k += 1
        wr = f"x[{a} * i + {b}]"
        rd = f"x[{c} * i + {d}]" if c else f"x[{d}]"
        out.append(_par(f"tp{k}", "x: f32[20], y: f32[8]", ["for i in par(0, 8):", f"    {wr} = {rd} + y[i]"]))
    # rows of a 2-D buffer through windows of windows (point and interval coordinates, non-zero offsets)
    for dw, dr in itertools.product((0, 1), (0, 1, 2)):
        k += 1
        out.append(_par(f"tp{k}", "x: f32[20, 8]", ["w = x[8:18, 0:8]", "for i in par(0, 4):", f"    tp_row(w[i + {dw}, 0:8], w[i + {dr}, 0:8])"]))
        k += 1
        out.append(_par(f"tp{k}", "x: f32[20, 8]", ["w = x[8:18, 0:8]", "for i in par(0, 4):", f"    a = w[i + {dw}, 0:8]", f"    b = w[i + {dr}, 0:8]", "    tp_row(a, b)"]))
        k += 1
        out.append(_par(f"tp{k}", "x: f32[20, 8]", ["w = x[8:18, 0:8]", "for i in par(0, 4):", f"    tp_row(w[i + {dw}, 0:8], x[{8 + dr} + i, 0:8])"]))
        k += 1
        out.append(_par(f"tp{k}", "x: f32[20, 8]", ["w = x[8:18, 0:8]", "v = w[2:8, 0:8]", "for i in par(0, 4):", f"    tp_row(v[i + {dw}, 0:8], w[i + {2 + dr}, 0:8])"]))
    # one side through a window of a window (statement or call argument), the other side a direct access
    # (two views of one buffer may not both be call arguments, so these are the shapes that reach the race check)
    for dw, dr in itertools.product((0, 1), (0, 1, 2)):
        k += 1
        out.append(_par(f"tp{k}", "x: f32[20, 8]", ["w1 = x[8:18, 0:8]", "for i in par(0, 4):", f"    w2 = w1[i + {dw}, 0:8]", "    for j in seq(0, 8):", f"        w2[j] = x[i + {8 + dr}, j] + 1.0"]))
        k += 1
        out.append(_par(f"tp{k}", "x: f32[20, 8]", ["w1 = x[8:18, 0:8]", "for i in par(0, 4):", "    v: f32", f"    v = x[i + {8 + dr}, 0] + 1.0", f"    tp_setv(w1[i + {dw}, 0:8], v)"]))
        k += 1
        out.append(_par(f"tp{k}", "x: f32[20, 8]", ["w1 = x[4:18, 0:8]", "w0 = w1[4:14, 0:8]", "for i in par(0, 4):", "    v: f32", f"    v = w1[i + {4 + dr}, 0] + 1.0", f"    tp_setv(w0[i + {dw}, 0:8], v)"]))
        k += 1
        out.append(_par(f"tp{k}", "x: f32[20, 8]", ["w1 = x[8:18, 2:8]", "for i in par(0, 4):", f"    w2 = w1[i + {dw}, 2:6]", "    for j in seq(0, 4):", f"        w2[j] = x[i + {8 + dr}, j + 4] + 1.0"]))
        k += 1
        out.append(_par(f"tp{k}", "x: f32[20, 8]", ["w1 = x[8:18, 0:8]", "for i in par(0, 4):", "    for j in seq(0, 8):", f"        w1[i + {dw}, j] = x[i + {8 + dr}, j] + 1.0"]))
    # reductions and scalars
    for body in (["    s += x[i]"], ["    s = x[i]"], ["    y[i] = s", "    s = x[i]"], ["    y[0] += x[i]"], ["    y[i] += x[i]"], ["    t: f32", "    t = x[i]", "    y[i] = t"]):
        k += 1
        out.append(_par(f"tp{k}", "x: f32[8], y: f32[8], s: f32", ["for i in par(0, 8):"] + body))
    # nested: par inside seq, seq inside par, par inside par
    for outer, inner, acc in itertools.product(("par", "seq"), ("par", "seq"), ("y[i] += x[i, j]", "y[j] += x[i, j]", "z[i, j] = x[i, j]", "y[0] = x[i, j]")):
        if outer == "seq" and inner == "seq":
            continue
        k += 1
        out.append(_par(f"tp{k}", "x: f32[4, 4], y: f32[4], z: f32[4, 4]", [f"for i in {outer}(0, 4):", f"    for j in {inner}(0, 4):", f"        {acc}"]))
    # configuration state is shared by all iterations
    cfg_pre = ["@config", "class TPCfg:", "    scale: f32", "    k: index"]
    for body in (
        ["    y[i] = x[i] * TPCfg.scale"],
        ["    y[i] = x[i] * TPCfg.scale", "    TPCfg.scale = 2.0"],
        ["    TPCfg.scale = 2.0", "    y[i] = x[i] * TPCfg.scale"],
        ["    TPCfg.scale = x[i]"],
        ["    TPCfg.k = 3", "    y[i] = x[i]"],
        ["    if TPCfg.k == 0:", "        y[i] = x[i]", "    TPCfg.k = 1"],
        ["    tp_cfgw()", "    y[i] = x[i] * TPCfg.scale"],
        ["    y[i] = x[i] * TPCfg.scale", "    tp_cfgw()"],
    ):
        k += 1
        extra = cfg_pre + ["@proc", "def tp_cfgw():", "    TPCfg.scale = 2.0"]
        out.append(_par(f"tp{k}", "x: f32[8], y: f32[8]", ["for i in par(0, 8):"] + body, extra_pre=extra))
    return out


# ---------------------------------------------------------------------------
# C02 / C08: lifetime of allocations (where the backend may place free()), name disambiguation, scalars


def mem_family():
    """an allocation whose LAST use sits in every syntactic position: then-branch, else-branch, nested loop,
    call argument, window alias, loop bound of nothing (never used), second of two ifs, inside both branches"""
    out = []
    k = 0
    sig = "n: size, f: index, src: f32[n], dst: f32[n]"
    fill = ["tmp: f32[n]", "for i in seq(0, n):", "    tmp[i] = 2.0 * src[i]"]
    use = ["for i in seq(0, n):", "    dst[i] = tmp[i]"]
    other = ["for i in seq(0, n):", "    dst[i] = src[i]"]

    def ind(ls, by=1):
        return ["    " * by + l for l in ls]

    shapes = {
        "then": ["if f > 1:"] + ind(use) + ["else:"] + ind(other),
        "else": ["if f > 1:"] + ind(other) + ["else:"] + ind(use),
        "both": ["if f > 1:"] + ind(use) + ["else:"] + ind(use),
        "then_only": ["if f > 1:"] + ind(use),
        "nested_else": ["if f > 1:"] + ind(other) + ["else:"] + ind(["if f > 0:"] + ind(other) + ["else:"] + ind(use)),
        "loop_else": ["for r in seq(0, 2):"] + ind(["if r < 1:"] + ind(other) + ["else:"] + ind(use)),
        "else_then_after": ["if f > 1:"] + ind(other) + ["else:"] + ind(use) + ["for i in seq(0, n):", "    dst[i] += src[i]"],
        "plain": use,
        "two_ifs": ["if f > 1:"] + ind(use) + ["if f > 2:"] + ind(other) + ["else:"] + ind(use),
    }
    for nm, body in shapes.items():
        k += 1
        out.append(_p(f"tm{k}_{nm}", sig, fill + body))
    # a second allocation declared inside the else-branch next to the last use of the first
    k += 1
    out.append(_p(f"tm{k}_else_alloc", sig, fill + ["if f > 1:"] + ind(other) + ["else:"] + ind(["y: f32[n]", "for i in seq(0, n):", "    y[i] = 1.0", "for i in seq(0, n):", "    dst[i] = tmp[i] + y[i]"])))
    # last use through a window alias / call argument in a branch
    k += 1
    out.append(_with_pre(f"tm{k}_alias_else", "f: index, src: f32[4], dst: f32[4]", ["tmp: f32[8]", "for i in seq(0, 8):", "    tmp[i] = 1.0", "w = tmp[2:6]", "if f > 1:", "    pass", "else:", "    for i in seq(0, 4):", "        dst[i] = w[i] + src[i]"]))
    k += 1
    out.append(_with_pre(f"tm{k}_call_else", "f: index, src: f32[4], dst: f32[4]", ["tmp: f32[8]", "for i in seq(0, 8):", "    tmp[i] = 1.0", "if f > 1:", "    pass", "else:", "    tw_acc(dst[0:4], tmp[2:6])"]))
    k += 1
    out.append(_with_pre(f"tm{k}_call_then", "f: index, src: f32[4], dst: f32[4]", ["tmp: f32[8]", "for i in seq(0, 8):", "    tmp[i] = 1.0", "if f > 1:", "    tw_acc(dst[0:4], tmp[2:6])"]))
    # allocations inside loops and branches (free on every path, once)
    k += 1
    out.append(_p(f"tm{k}_alloc_in_else", sig, ["if f > 1:"] + ind(other) + ["else:"] + ind(fill + use)))
    k += 1
    out.append(_p(f"tm{k}_alloc_in_loop_if", sig, ["for r in seq(0, 2):"] + ind(["t2: f32[n]", "for i in seq(0, n):", "    t2[i] = src[i]", "if r < 1:"] + ind(other) + ["else:"] + ind(["for i in seq(0, n):", "    dst[i] = t2[i]"]))))
    return out


# ---------------------------------------------------------------------------
# C02 / C08: floor division on numerators that go negative (the backend must not emit C's truncating `/`)


def idx_family():
    out = []
    k = 0
    exprs = ["(i - 1) / 2 + 1", "(i - 3) / 4 + 1", "(1 - i) / 2 + 4", "(i - 5) / 4 + 2", "((i + 2) % 4 - 1) / 2 + 1", "(2 * i - 3) / 2 + 2",
             "(i + j - 2) / 2 + 1", "(i - j) / 2 + 2", "(i - 1) / 2 + (j - 1) / 2 + 2", "(0 - i) / 2 + 4", "(i - 2) / 3 + 1", "(3 * i - 4) / 4 + 1"]
    for e in exprs:
        k += 1
        if "j" in e:
            body = ["for i in seq(0, 4):", "    for j in seq(0, 4):", f"        y[{e}] += x[i] + x[j]"]
        else:
            body = ["for i in seq(0, 8):", f"    y[{e}] += x[i]"]
        out.append(_p(f"ti{k}", "x: f32[8], y: f32[16]", body))
    # symbolic: k may be negative
    for e in ["(k - 1) / 2 + 4", "(k + i - 3) / 2 + 4", "(2 * k + 1) / 4 + 4"]:
        k += 1
        out.append(_p(f"ti{k}", "k: index, x: f32[8], y: f32[16]", ["assert k >= -4 and k <= 4", "for i in seq(0, 4):", f"    y[{e}] += x[i]"]))
    return out
