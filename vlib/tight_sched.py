"""Tight schedule grids: for the scheduling operations whose acceptance is decided
by a bounds / dependence analysis, the numeric arguments are not sampled but
enumerated over a complete small grid around every boundary, on seeds whose
buffers have literal extents.  A wrong verdict of the analysis on exactly one
grid point (an off-by-one, an offset dropped when windows are composed, ...)
then shows up as an accepted instance that the solver refutes (C04
obligations / C01 equivalence).

grid(p, env) -> list of (opname, args)
"""
from __future__ import annotations

import exo.API_cursors as PC
from exo.core.LoopIR import LoopIR

from . import sched_enum as SE


def _lit_shape(alloc_cursor):
    node = alloc_cursor._impl._node
    if not node.type.is_tensor_or_window():
        return None
    shp = []
    for e in node.type.shape():
        if not isinstance(e, LoopIR.Const):
            return None
        shp.append(int(e.val))
    return shp


def grid(p, env, quick=True):
    out = []
    stmts = SE.stmt_cursors(p)
    allocs = [s for s in stmts if isinstance(s, PC.AllocCursor)]
    loops = [s for s in stmts if isinstance(s, PC.ForCursor)]
    # resize_dim: every dimension, every size and offset up to the extent (+1)
    for a in allocs:
        shp = _lit_shape(a)
        if not shp:
            continue
        for d, ext in enumerate(shp):
            if ext > 12:
                continue
            for size in range(1, ext + 2):
                for off in range(0, ext + 1):
                    if quick and size + off not in (ext - 1, ext, ext + 1) and off not in (0, 1) and size not in (ext,):
                        # quick: the faces of the grid (tight sizes, zero / unit offsets)
                        continue
                    out.append(("resize_dim", (a, d, size, off, False)))
            for size in (1, 2, 3, 4):
                out.append(("resize_dim", (a, d, size, 0, True)))
    # stage_mem: windows of literal-shaped buffers with every lo/hi on the first dimension
    bufs = []
    ir = p._loopir_proc
    for fa in ir.args:
        if fa.type.is_tensor_or_window() and all(isinstance(e, LoopIR.Const) for e in fa.type.shape()):
            bufs.append((fa.name.name(), [int(e.val) for e in fa.type.shape()]))
    for a in allocs:
        shp = _lit_shape(a)
        if shp:
            bufs.append((a._impl._node.name.name(), shp))
    blocks = [b for b in SE.block_cursors(p, maxlen=2)]
    for nm, shp in bufs[:3]:
        if not shp or shp[0] > 12:
            continue
        rest = "".join(f", 0:{e}" for e in shp[1:])
        for b in blocks[: (6 if quick else 20)]:
            for lo in range(0, shp[0]):
                for hi in range(lo + 1, shp[0] + 1):
                    if quick and not (lo in (0, 1) or hi in (shp[0], shp[0] - 1) or hi - lo == 1):
                        continue
                    out.append(("stage_mem", (b, f"{nm}[{lo}:{hi}{rest}]", "stg", False)))
    # loop splitting / shifting with every small constant
    for l in loops:
        for c in range(0, 6):
            out.append(("cut_loop", (l, c)))
            out.append(("shift_loop", (l, c)))
        for c in (1, 2, 3, 4, 5):
            for tail in ("cut", "guard", "cut_and_guard"):
                out.append(("divide_loop", (l, c, ["go", "gi"], tail, False)))
            out.append(("divide_loop", (l, c, ["go", "gi"], "cut", True)))
    # expand_dim with every enclosing iterator +/- 1
    for a in allocs:
        its = SE.enclosing_iters(a)
        for it in its[:2]:
            for size in (1, 2, 3, 4, 8):
                for e in (it, f"{it} + 1", f"{it} - 1", f"2 * {it}"):
                    out.append(("expand_dim", (a, size, e)))
    return out
