"""Structural well-formedness of a LoopIR procedure (C04 clause (a)):
every use of a Sym lies in the scope of exactly one declaration of it."""
from __future__ import annotations

from exo.core.LoopIR import LoopIR, T


class WFError(Exception):
    pass


def check_wellformed(proc):
    """returns list of problems (strings); empty = well-formed"""
    problems = []

    def use(sym, scope, what):
        if sym not in scope:
            problems.append(f"use of {sym!r} ({what}) outside the scope of any declaration")

    def bind(sym, scope, what):
        if sym in scope:
            problems.append(f"{sym!r} declared again ({what}) inside the scope of an earlier declaration")
        scope[sym] = what

    def expr(e, scope):
        if isinstance(e, LoopIR.Read):
            use(e.name, scope, "read")
            for i in e.idx:
                expr(i, scope)
        elif isinstance(e, LoopIR.WindowExpr):
            use(e.name, scope, "window")
            for w in e.idx:
                if isinstance(w, LoopIR.Point):
                    expr(w.pt, scope)
                else:
                    expr(w.lo, scope)
                    expr(w.hi, scope)
        elif isinstance(e, LoopIR.StrideExpr):
            use(e.name, scope, "stride")
        elif isinstance(e, LoopIR.BinOp):
            expr(e.lhs, scope)
            expr(e.rhs, scope)
        elif isinstance(e, LoopIR.USub):
            expr(e.arg, scope)
        elif isinstance(e, LoopIR.Extern):
            for a in e.args:
                expr(a, scope)
        elif isinstance(e, (LoopIR.Const, LoopIR.ReadConfig)):
            pass
        else:
            problems.append(f"unknown expr node {type(e).__name__}")

    def typ(t, scope):
        if isinstance(t, T.Tensor):
            for h in t.hi:
                expr(h, scope)

    def block(stmts, scope):
        scope = dict(scope)
        # (an empty block is unusual -- Exo normally keeps a `pass` -- but C04 does not forbid it)
        for s in stmts:
            if isinstance(s, (LoopIR.Assign, LoopIR.Reduce)):
                use(s.name, scope, "write")
                for i in s.idx:
                    expr(i, scope)
                expr(s.rhs, scope)
            elif isinstance(s, LoopIR.WriteConfig):
                expr(s.rhs, scope)
            elif isinstance(s, LoopIR.Pass):
                pass
            elif isinstance(s, LoopIR.If):
                expr(s.cond, scope)
                block(s.body, scope)
                if s.orelse:
                    block(s.orelse, scope)
            elif isinstance(s, LoopIR.For):
                expr(s.lo, scope)
                expr(s.hi, scope)
                sc = dict(scope)
                bind(s.iter, sc, "loop iterator")
                block(s.body, sc)
            elif isinstance(s, LoopIR.Alloc):
                typ(s.type, scope)
                bind(s.name, scope, "alloc")
            elif isinstance(s, LoopIR.Free):
                use(s.name, scope, "free")
            elif isinstance(s, LoopIR.WindowStmt):
                expr(s.rhs, scope)
                bind(s.name, scope, "window stmt")
            elif isinstance(s, LoopIR.Call):
                if len(s.args) != len(s.f.args):
                    problems.append(f"call to {s.f.name} with {len(s.args)} args, expected {len(s.f.args)}")
                for a in s.args:
                    expr(a, scope)
            else:
                problems.append(f"unknown stmt node {type(s).__name__}")

    scope = {}
    for a in proc.args:
        typ(a.type, scope)
        bind(a.name, scope, "argument")
    for p in proc.preds:
        expr(p, scope)
    block(proc.body, scope)
    return problems
